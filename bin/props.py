# Per-property configuration: budgets per tier, claimed level, texts for
# MANIFEST.json and evidence.  bin/mkmanifest renders MANIFEST.json from this.

REAL_PLAN = ["pkg/drc", "pkg/device (CompareFiles)", "pkg/cisco", "pkg/asa", "pkg/ios", "pkg/errlog", "pkg/codefiles"]
STUB_PLAN = ["device: executable ASA/IOS node model /verif/sim/cisco (own command tables, reference table, ACL arithmetic, printer with spelling variants)"]
ASSUME_NODE = [
    "the ASA/IOS node model in /verif/sim/cisco represents how the real devices execute the emitted commands (trusted base)",
    "generator bounds: <=3 interfaces, <=10 ACL lines per ACL, <=4 object-groups, <=5 routes, <=7 edit operators between device and target",
]

def B(cases, seconds, **kw):
    d = {"cases": cases, "seconds": seconds}
    d.update(kw)
    return d

PROPS = {
 "C01": {
  "level": "exploration", "design_ref": "DESIGN.md §5 P-C01",
  "technique": "seeded simulation: real drc plans the change, the script is executed command by command on an executable ASA device model; final-state refinement check against the target + re-compare; one accepted non-empty case in six additionally as a complete simulated approve session (login variants, tape-drawn chunking and latency) whose device must end equivalent, saved and recorded OK",
  "level_text": "Seeded search over (device state, target) pairs; every emitted script is executed on a stateful ASA model and the resulting managed view must equal the target's, and a second real compare must be empty. Sampling, not proof; the schedule/fault dimension does not influence this property (input-quantified).",
  "level_note": "Trusts the ASA node model and the canonical-view oracle in /verif/sim/cisco; covers ACLs, object-groups, access-group bindings and routes (VPN object families only where the generator emits them).",
  "rule": "case = (device config A derived from target B by seeded edit operators, or drawn independently); non-trivial = tool accepted the pair and emitted a non-empty script; distinct = hash of (device text, target text)",
  "quick": B(80000, 40), "thorough": B(3000000, 900),
  "real": REAL_PLAN, "stubs": STUB_PLAN, "assumptions": ASSUME_NODE, "min_nontrivial": 50,
 },
 "C02": {
  "level": "exploration", "design_ref": "DESIGN.md §5 P-C02",
  "technique": "seeded simulation: real drc plans the change, the script (resequence, numbered inserts/deletes, bindings, routes) is executed on an executable IOS device model; block-multiset ACL equivalence + re-compare; one case in six additionally as a complete simulated approve session under the reload guard",
  "level_text": "Seeded search over IOS (device, target) pairs; numbered ACL commands are executed with real sequence-number arithmetic on the IOS model; the resulting filter (runs of same-action entries as multisets) and routes must equal the target's and the second compare must be empty. Sampling, not proof.",
  "level_note": "Trusts the IOS node model; log options are not part of the compared filter semantics because the statement speaks about filtering.",
  "rule": "as C01 with the IOS generator; non-trivial = accepted and non-empty script; distinct = hash of (device text, target text)",
  "quick": B(80000, 40), "thorough": B(3000000, 900),
  "real": REAL_PLAN, "stubs": STUB_PLAN, "assumptions": ASSUME_NODE, "min_nontrivial": 50,
 },
 "C07": {
  "level": "exploration", "design_ref": "DESIGN.md §5 P-C07",
  "technique": "seeded simulation with frame-condition invariant: after every executed command of the script the unmanaged part of the device model (computed by an independent reachability analysis) must be textually identical",
  "level_text": "Seeded search over device states with unmanaged clutter (interfaces unknown to the target with their ACLs and groups, untagged unused objects, routes of other VRFs, unmodelled lines, aaa-server); invariant checked after each command prefix. ASA, IOS (plan mode), PAN-OS (everything outside the targeted vsys) and NSX (objects without the Netspoc prefix) in live sessions.",
  "level_note": "Trusts the node model and the oracle's own reachability computation of the out-of-scope set.",
  "rule": "case = cisco pair with clutter knob; non-trivial = accepted, non-empty script; distinct = hash of texts",
  "quick": B(100000, 40), "thorough": B(4000000, 900),
  "real": REAL_PLAN, "stubs": STUB_PLAN, "assumptions": ASSUME_NODE, "min_nontrivial": 50,
 },
 "C08": {
  "level": "exploration", "design_ref": "DESIGN.md §5 P-C08",
  "technique": "seeded simulation: the device model's executor is the invariant checker — every command of every emitted script must be accepted at the moment it is executed (referents exist, nothing referenced is deleted, no duplicate ACE, line/sequence numbers hit, config mode is right)",
  "level_text": "Seeded search over ASA/IOS pairs biased towards sharing patterns; each script position is an executed step on a device model that enforces the rules the statement names.",
  "level_note": "Trusts the nodes' referential rules (own reference tables): ASA, IOS, PAN-OS, NSX.",
  "rule": "case = cisco pair; non-trivial = accepted, non-empty script; distinct = hash of texts",
  "quick": B(100000, 40), "thorough": B(4000000, 900),
  "real": REAL_PLAN, "stubs": STUB_PLAN, "assumptions": ASSUME_NODE, "min_nontrivial": 50,
 },
 "C14": {
  "level": "exploration", "design_ref": "DESIGN.md §5 P-C14",
  "technique": "seeded simulation with per-step invariant: after each executed script step first-match evaluation of every bound ACL over a 125-packet universe, and route coverage per destination, compared with the old state and the target; Linux route sets: 'ip route add/del' transactions executed step by step on a kernel-like table",
  "level_text": "Each (old,new) pair is decided exactly over the enumerated packet universe at every step; the search is over pairs. Joined two-command lines are one atomic step, object-group membership edits are excluded exactly as the statement says.",
  "level_note": "Trusts the node model's ACL arithmetic and the entry parser of the oracle (generator vocabulary: ip/tcp/udp/icmp, host/net/any/group, eq/range). ASA, IOS (ACLs and routes), Linux (routes).",
  "rule": "case = cisco pair; non-trivial = accepted, non-empty script; distinct = hash of texts",
  "quick": B(24000, 40), "thorough": B(1000000, 900),
  "real": REAL_PLAN, "stubs": STUB_PLAN, "assumptions": ASSUME_NODE, "min_nontrivial": 50,
 },
}


REAL_LIVE = ["pkg/drc (Main)", "pkg/doapprove (Main)", "pkg/device", "pkg/cisco", "pkg/asa", "pkg/ios", "pkg/console incl. goexpect matching loop and timers", "pkg/status", "pkg/errlog", "pkg/program", "pkg/codefiles", "file system (basedir on tmpfs)"]
STUB_LIVE = ["pty + ssh process: io.Pipe pair behind expect.SpawnGeneric (hook H1)", "device: executable ASA/IOS node with dialogue front end, reload timer, fault injector (/verif/sim/cisco)", "clock: testing/synctest fake clock"]
ASSUME_LIVE = ASSUME_NODE + ["dialogue front end reproduces prompts, echo and password handling of real devices (no echo at password prompts, echo at command prompts)"]

PROPS.update({
 "C06": {
  "level": "exploration", "design_ref": "DESIGN.md §5 P-C06",
  "technique": "deterministic simulation of full approve sessions (real drc.Main / doapprove.Main in a synctest bubble against the device node); configuration product hostname x marker x front end enumerated per sampled input; oracle on the device's command transcript",
  "level_text": "For every sampled (A,B) with pending changes the product {drc, do-approve} x 4 hostname variants x {marker present, absent, partial, not configured} is run completely; a wrong or unmanaged device must receive no change/guard/save command and the run must fail with a diagnostic; marker not configured must behave like marker present. ASA, IOS, Linux (hostname x /etc/issue marker) and PAN-OS (hostname x display-name marker x HA state); NSX has neither marker nor hostname check in the statement.",
  "level_note": "Trusts the node's command classification (by protocol position and effect on the model state).",
  "rule": "case = cisco pair x 32 configurations; evaluations = sessions; non-trivial = reference run has a non-empty script; distinct = hash of texts",
  "quick": B(3000, 40), "thorough": B(80000, 900),
  "real": REAL_LIVE, "stubs": STUB_LIVE, "assumptions": ASSUME_LIVE, "min_nontrivial": 20,
 },
 "C09": {
  "level": "fault_enumeration", "design_ref": "DESIGN.md §5 P-C09",
  "technique": "deterministic simulation with fault injection: fault-free session fixes the dialogue positions, then every fault kind (stall beyond timeout, close, close after echo, error text, garbage, garbled echo, failed save, auth reject; plus legal warnings/latency) is injected at every position; oracles over device transcript, exit status, status file, history, run log, bounded liveness in simulated time",
  "level_text": "Per sampled scenario all dialogue positions x applicable fault kinds are enumerated (thorough: all; quick: a rotating third); after the fault no change or save command may reach the device, exit != 0, FAILED/DIFF, END: FAILED, tool ends within 5*timeout+10 s simulated; conversely OK only if every command was accepted and the save confirmed. Timeouts of 10-120 s cost microseconds (fake clock).",
  "level_note": "ASA, IOS, Linux, PAN-OS and NSX sessions. Error text at setup commands whose reply the tool does not inspect by design is not judged.",
  "rule": "evaluations = faulted sessions; non-trivial = base scenario with >=1 change command; distinct = hash(device, target, front, mode)",
  "quick": B(5000, 50), "thorough": B(100000, 1200),
  "real": REAL_LIVE, "stubs": STUB_LIVE, "assumptions": ASSUME_LIVE, "min_nontrivial": 20,
 },
 "C11": {
  "level": "fault_enumeration", "design_ref": "DESIGN.md §5 P-C11",
  "technique": "deterministic simulation with fault injection: compare sessions (drc -C, do-approve compare) under every interlock outcome and every fault kind at every dialogue position (error replies also at session and show commands), drc with and without log directory; transcript oracle + state hash of running/startup configuration before and after",
  "level_text": "Compare runs with non-empty differences, missing marker, unconfigured marker, wrong hostname, and all C09 fault kinds at all positions: the device must receive no change, guard or save command (only ASA 'terminal width' inside configure terminal) and its running and startup configuration must be byte-identical afterwards.",
  "level_note": "ASA, IOS, Linux, PAN-OS and NSX.",
  "rule": "evaluations = compare sessions; non-trivial = base compare reports differences; distinct = hash(device, target, front, interlock)",
  "quick": B(8000, 40), "thorough": B(400000, 900),
  "real": REAL_LIVE, "stubs": STUB_LIVE, "assumptions": ASSUME_LIVE, "min_nontrivial": 20,
 },
 "C15": {
  "level": "fault_enumeration", "design_ref": "DESIGN.md §5 P-C15",
  "technique": "deterministic simulation: IOS node with simulated reload timer; for every change command of the guarded region a reload banner (2:00 or timer-driven 1:00) is placed before / inside (offsets) / after its echo, with or without extra prompt; order oracles on the transcript + outcome invariance against the banner-free run",
  "level_text": "Per scenario every change-command position x banner form x kind (thorough: every echo offset) is enumerated. The 1:00 banner is produced by the node's own timer (the node idles until T-60 s on the fake clock). Oracles: changes only while a reload is armed, write memory only after cancel and only if all accepted, nothing pending after OK, re-arm after 1:00, same exit/running/startup/script as without banner.",
  "level_note": "Only banner placements the suite documents as produced by devices (inside the command echo, with extra prompt only at its ends).",
  "rule": "evaluations = bannered sessions; non-trivial = scenario with non-empty script; distinct = hash of texts",
  "quick": B(4000, 50), "thorough": B(240000, 1200),
  "real": REAL_LIVE, "stubs": STUB_LIVE, "assumptions": ASSUME_LIVE, "min_nontrivial": 20,
 },
 "C17": {
  "level": "fault_enumeration", "design_ref": "DESIGN.md §5 P-C17",
  "technique": "deterministic simulation with fault injection: fresh random secret per run (alphabet needing URL/XML escaping), all fault kinds at all dialogue positions incl. rejected enable; byte scan of every file under basedir, stdout and stderr for the secret in plain, query-escaped, path-escaped and XML-escaped form",
  "level_text": "Every sink is scanned after every run (success and each fault kind x position, login positions always). The node never echoes input given at a password prompt and echoes input typed at a command prompt, like real devices.",
  "level_note": "ASA, IOS, Linux (login password), PAN-OS (password, API key), NSX (password, xsrf token, session cookie).",
  "rule": "evaluations = sessions; non-trivial = every case (fresh secret); distinct = hash(secret, kind, front)",
  "quick": B(3500, 40), "thorough": B(240000, 900),
  "real": REAL_LIVE, "stubs": STUB_LIVE, "assumptions": ASSUME_LIVE, "min_nontrivial": 20,
 },
})


PROPS.update({
 "C10": {
  "level": "fault_enumeration", "design_ref": "DESIGN.md §5 P-C10",
  "technique": "deterministic simulation with crash injection: the approve script is cut after every prefix (incl. between the halves of a joined line) on the device model, the partially changed device is printed in device spelling and the real tool approves again; plus live sessions cut by a dropped connection (and, on IOS, the reload guard firing) followed by a second live session",
  "level_text": "For every sampled pair ALL cut positions of the script are enumerated; the second approve must be accepted, executable, converge to the target's canonical view, and a third compare must be empty. Sampled pairs, exhaustive cuts per pair.",
  "level_note": "ASA and IOS: all cut positions in plan mode plus live cuts; PAN-OS and NSX (a sixth of the cases each): a live session cut by a dropped connection at every change request in turn, second live session judged by the oracles of C03 / C04. Trusts node models and canonical views.",
  "rule": "evaluations = (pair, cut) resumptions; non-trivial = pair with non-empty script; distinct = hash of texts",
  "quick": B(12000, 50), "thorough": B(150000, 1200),
  "real": REAL_PLAN + ["pkg/doapprove, pkg/console (live cuts)"], "stubs": STUB_PLAN + STUB_LIVE, "assumptions": ASSUME_LIVE, "min_nontrivial": 50,
 },
 "C16": {
  "level": "exploration", "design_ref": "DESIGN.md §5 P-C16",
  "technique": "deterministic simulation of the hash-map iteration schedule: the harness is built against a scratch copy of the repository in which a go/packages rewriter routes every map range / maps.Keys / maps.Values through a seam; each input is planned under ascending, descending and seeded shuffled schedules and stdout, exit status and WARNING/ERROR lines must be byte-identical; a failing input is re-run permuting one site at a time to name the culprit function",
  "level_text": "Inputs: every (DEVICE, NETSPOC) pair of the repository's test data for all five device types plus generated tie-heavy ASA/IOS pairs (duplicated / split identical object-groups). K=6 (quick) or 12 (thorough) schedules per input.",
  "level_note": "Sources of nondeterminism other than map iteration are not permuted (the tool has no goroutines of its own, no randomness, no clock in planning). Generated tie inputs for all five device types plus every (DEVICE, NETSPOC) pair of the repository's test data.",
  "rule": "evaluations = planning runs under a permuted schedule; non-trivial = every input (>=1 map site with >1 element); distinct = hash of input texts",
  "quick": B(40000, 50), "thorough": B(2000000, 900),
  "real": ["pkg/drc", "pkg/device (CompareFiles)", "pkg/cisco", "pkg/asa", "pkg/ios", "pkg/linux", "pkg/panos", "pkg/nsx (all compiled from the rewritten scratch copy)"],
  "stubs": ["map iteration order: verifmap seam inserted by tools/maporder"], "assumptions": ["the rewrite preserves semantics: the repository's own suite passes on the rewritten copy under ascending order (checked while building this)"], "min_nontrivial": 50,
 },
 "C20": {
  "level": "fault_enumeration", "design_ref": "DESIGN.md §5 P-C20",
  "technique": "fault injection on stored inputs: every device / code / ipv6 / raw / info file of the repository's test data is corrupted line by line (word-prefix truncation, token deletion, duplication, swap, indent +-1, empty, garbage, unreadable) and the real drc planning entry point is run under recover with a hang watchdog; damaged status files are fed to the real missing-approve binary",
  "level_text": "The family of the statement is enumerated deterministically: thorough = the whole family (exhaustive: true unless stopped by time), quick = a seeded 1/20 slice. Oracle: exit status 0 or 1, a message on 1, no panic, no hang.",
  "level_note": "In-process call of drc.Main under recover stands for the binary (a runtime panic there is exit status 2 of the real binary).",
  "rule": "evaluations = corrupted inputs run; non-trivial = each (test case, file, mutation); distinct = hash of those",
  "quick": B(1, 100), "thorough": B(1, 1500),
  "real": ["pkg/drc", "pkg/device", "all five device packages", "cmd/missing-approve (real binary)"], "stubs": [], "assumptions": [], "min_nontrivial": 50,
 },
})


PROPS.update({
 "C19": {
  "level": "fault_enumeration", "design_ref": "DESIGN.md §5 P-C19",
  "technique": "deterministic simulation of bin/newpolicy.sh as real bash processes: a BASH_ENV DEBUG-trap tracer parks the unmodified script before every simple command; a single-threaded orchestrator releases one process at a time, kills the process group before any chosen command (kill -9 at every simple command of a run), interleaves 2-3 simultaneous invocations step by step, and checks invariants on policies/ between any two commands; bounded liveness after faults stop",
  "level_text": "Histories of good/bad commits (with or without author e-mail, so the revert path runs) against a real bare git origin; kill points are enumerated over every simple command of the reference run (thorough: all, quick: every 6th); invariants: 'current' absent or a directory produced by a successful compile, numbers strictly increasing, no non-compiling revision current, at most one invocation in the critical section; then one undisturbed run must make the newest compiling revision current within 400 steps.",
  "level_note": "Real bash, git, flock, get-netspoc-approve-conf; stub netspoc (succeeds iff no file BAD) and mail. External commands are atomic for the scheduler.",
  "rule": "evaluations = disturbed runs (kills or multi-invocation schedules); non-trivial = each generated history; distinct = hash of the event log",
  "quick": B(32, 80), "thorough": B(2000, 1500),
  "real": ["bin/newpolicy.sh (unmodified, traced)", "bash", "git", "flock", "cmd/get-netspoc-approve-conf (built from the tree)"],
  "stubs": ["netspoc (compiler)", "mail"], "assumptions": ["kill -9 of the process group models a crash between two simple commands; a crash inside an external command (git, mv) is not modelled"], "min_nontrivial": 8,
 },
})


PROPS.update({
 "C12": {
  "level": "exploration", "design_ref": "DESIGN.md §5 P-C12",
  "technique": "deterministic simulation with real OS processes: 2-4 invocations of drc / do-approve (approve, compare, different spellings of the device path) are parked at hook points and at every device interaction and released one at a time by a single-threaded orchestrator from the tape; holders are SIGKILLed at a parked point; session-overlap detector in the device node, before/after snapshots around every losing run, try-lock history checked with porcupine against a sequential model",
  "level_text": "Seeded search over interleavings: where in the holder's run each contender starts, which parked process proceeds, whether the holder is killed. flock(2) and the file system are real, so release-on-kill is the kernel's. Oracles: no two sessions on one device, a loser exits 1 with 'Approve in progress' and leaves status/history/logs/device untouched, the lock history is a legal try-lock history (no spurious failure, lock free after kill).",
  "level_note": "Real processes use the real clock (goexpect poll ticker), so no timing faults in this mode; device = IOS node inside the tool process with its state in a file.",
  "rule": "evaluations = multi-process runs; non-trivial = run with at least one loser or a kill; distinct = hash of the event log",
  "quick": B(1200, 60), "thorough": B(12000, 1500),
  "real": ["cmd/drc and cmd/do-approve main packages rebuilt with the hook installer (3-line mains)", "pkg/drc, pkg/doapprove, pkg/device (SetLock, flock)", "pkg/status", "kernel flock, file system"],
  "stubs": ["ssh: in-process IOS node (state file)", "the two main wrappers"], "assumptions": ASSUME_LIVE, "min_nontrivial": 10,
 },
 "C13": {
  "level": "exploration", "design_ref": "DESIGN.md §5 P-C13",
  "technique": "deterministic simulation of event histories: real do-approve approve/compare sessions in synctest bubbles against IOS nodes (with injected faults), new policies with same/different code per v4/v6/raw file, manual drift, bzip2/removal of old policies, damaged status files, strictly increasing TEST_TIME; after every event the real missing-approve binary is compared with a small reference model fed with what the runs observed",
  "level_text": "Seeded histories of 3-12 events over 1-2 devices. Model: latest conclusive observation (approve OK or undisturbed compare); not established => must be listed; established, observed policy on disk and status not damaged since => must not be listed; anything else either way.",
  "level_note": "The model never reads the status file. Kills of do-approve at hook points are not part of this check (process mode covers locks only).",
  "rule": "evaluations = missing-approve verdicts (one per event); non-trivial = each history; distinct = hash of the event log",
  "quick": B(6000, 50), "thorough": B(400000, 1200),
  "real": REAL_LIVE + ["cmd/missing-approve (real binary)", "bzip2"], "stubs": STUB_LIVE, "assumptions": ASSUME_LIVE, "min_nontrivial": 50,
 },
})


PROPS.update({
 "C05": {
  "level": "exploration", "design_ref": "DESIGN.md §5 P-C05",
  "technique": "deterministic simulation of full approve sessions against an executable Linux node (kernel routing table, iptables ruleset loaded from the file the stub scp delivered, startup files); round trip target -> device -> iptables-save in kernel spelling -> compare",
  "level_text": "Seeded search over (routes, ruleset) pairs; the real session runs in a bubble; afterwards static routes and ruleset (tables, chains, policies, ordered rules; the node's own parsed representation) must equal the target, the startup files must hold them, and a compare of the target with what the node prints in kernel spelling (tape-chosen variants: /32, -m proto, xmark, open port ranges, state order, protocol names, negated syn flags, counters) must be empty; 'unchanged' only for an equivalent device.",
  "level_note": "Kernel spelling is limited to the variants the statement names plus the negated --tcp-flags form the suite documents.",
  "rule": "case = (Linux device, target); non-trivial = plan reports a difference; distinct = hash of texts",
  "quick": B(20000, 40), "thorough": B(600000, 900),
  "real": ["pkg/drc, pkg/doapprove, pkg/device, pkg/linux, pkg/console, goexpect"], "stubs": ["ssh: in-process Linux node (/verif/sim/linuxdev)", "scp: shell stub delivering into the node's file system"],
  "assumptions": ["the Linux node represents ip(8)/iptables-restore/iptables-save behaviour (trusted base)"], "min_nontrivial": 50,
 },
})


PROPS.update({
 "C03": {
  "level": "exploration", "design_ref": "DESIGN.md §5 P-C03",
  "technique": "deterministic simulation of full approve sessions against an executable PAN-OS XML-API node (generic XML candidate tree, xpath get/set/edit/delete/move, keygen, HA, partial commit job PEND*->OK); final-state refinement check of the candidate rulebase against the target with all objects expanded by content, committed == candidate, second real compare empty",
  "level_text": "Seeded search over pairs of vsys configurations (rule insert/delete/reorder, groups renamed/copied/split, member edits on both sides of the incremental/replace threshold, same-name-different-value objects, unknown extra XML, default attributes printed by the device, several vsys, foreign vsys, shared objects, backup address). Every request of the emitted script is executed on the candidate tree.",
  "level_note": "Trusts the PAN-OS node (set merges, edit replaces, move before, referential checks per request).",
  "rule": "case = (device config, target); non-trivial = session with >= 1 change request; distinct = hash of texts",
  "quick": B(40000, 40), "thorough": B(1000000, 900),
  "real": ["pkg/drc, pkg/doapprove, pkg/device, pkg/panos, pkg/httpdevice, net/http client down to the RoundTripper"],
  "stubs": ["TLS/TCP + device: RoundTripper backed by /verif/sim/panosdev (hook H2)"], "assumptions": ["the PAN-OS node represents the XML API semantics (trusted base)"], "min_nontrivial": 50,
 },
})


PROPS.update({
 "C04": {
  "level": "exploration", "design_ref": "DESIGN.md §5 P-C04",
  "technique": "deterministic simulation of full approve sessions against an executable NSX-T policy-API node (object stores, session/xsrf, paged lists, PUT/PATCH/POST?action/DELETE with referential checks); final-state check of every Netspoc policy as a multiset of rules with groups as address sets and services as definitions, no left-over Netspoc service/group/policy, second real compare empty",
  "level_text": "Seeded search over pairs of NSX states (rules sharing sequence numbers, renamed / copied / shared groups, membership edits on both sides of the replace heuristic, services changed in place, id clashes, left-over objects, extra/missing policies, external groups, paged lists, backup address).",
  "level_note": "Trusts the NSX node. Whether the manager refuses to empty an address expression could not be established offline and is tolerated.",
  "rule": "case = (manager state, target); non-trivial = session with >= 1 change request; distinct = hash of texts",
  "quick": B(40000, 40), "thorough": B(1200000, 900),
  "real": ["pkg/drc, pkg/doapprove, pkg/device, pkg/nsx, pkg/httpdevice, net/http client incl. cookie jar down to the RoundTripper"],
  "stubs": ["TLS/TCP + manager: RoundTripper backed by /verif/sim/nsxdev (hook H2)"], "assumptions": ["the NSX node represents the policy API semantics (trusted base)"], "min_nontrivial": 50,
 },
})


PROPS.update({
 "C18": {
  "level": "exploration", "design_ref": "DESIGN.md §5 P-C18",
  "technique": "seeded generation of (IPv4, IPv6, raw, raw-APPEND) part triples whose entries are all distinct; the effective target is materialised by letting the real tool approve onto an empty simulated device (ASA/IOS: emitted script executed on the node; Linux: emitted iptables-restore file loaded by the node's parser; PAN-OS/NSX: full simulated HTTP session in a bubble) and read back from the node",
  "level_text": "Oracle states only the constraints of the property: each entry of each part exactly once and nothing else, order inside each part kept, raw before Netspoc unless APPEND, APPEND behind the last permitting Netspoc entry and before the trailing deny/drop entries; a rejected input is accepted as such (never silently shortened). No faults: the property has none; the simulator is used as the device that holds the effective result.",
  "level_note": "ASA, IOS (v4+raw), Linux (v4+raw), PAN-OS (v4+v6+raw), NSX (as a multiset; NSX rules are ordered by sequence number, not position).",
  "rule": "case = part triple; non-trivial = accepted case whose effective list was checked; distinct = hash of the part files",
  "quick": B(100000, 40), "thorough": B(5000000, 900),
  "real": ["pkg/drc, pkg/device (file merge), pkg/cisco, pkg/asa, pkg/ios, pkg/linux, pkg/panos, pkg/nsx, pkg/httpdevice"],
  "stubs": ["device nodes /verif/sim/{cisco,linuxdev,panosdev,nsxdev}"], "assumptions": ["the node applies commands/requests like the device (trusted base)"], "min_nontrivial": 50,
 },
})

# Properties without a registered check: id -> reason.
NOT_CLAIMED = {
}
