# Per-property configuration: budgets per tier, claimed level, texts for
# MANIFEST.json and evidence.  bin/mkmanifest renders MANIFEST.json from this.

REAL_PLAN = ["pkg/drc", "pkg/device (CompareFiles)", "pkg/cisco", "pkg/asa", "pkg/ios", "pkg/errlog", "pkg/codefiles"]
STUB_PLAN = ["device: executable ASA/IOS node model /verif/sim/cisco (own command tables, reference table, ACL arithmetic, printer with spelling variants)"]
ASSUME_NODE = [
    "the ASA/IOS node model in /verif/sim/cisco represents how the real devices execute the emitted commands (trusted base)",
    "generator bounds: <=3 interfaces, <=10 ACL lines per ACL, <=4 object-groups, <=5 routes, <=7 edit operators between device and target",
]

def B(cases, seconds, **kw):
    d = {"cases": cases, "seconds": seconds}
    d.update(kw)
    return d

PROPS = {
 "C01": {
  "level": "exploration", "design_ref": "DESIGN.md §5 P-C01",
  "technique": "seeded simulation: real drc plans the change, the script is executed command by command on an executable ASA device model; final-state refinement check against the target + re-compare",
  "level_text": "Seeded search over (device state, target) pairs; every emitted script is executed on a stateful ASA model and the resulting managed view must equal the target's, and a second real compare must be empty. Sampling, not proof; the schedule/fault dimension does not influence this property (input-quantified).",
  "level_note": "Trusts the ASA node model and the canonical-view oracle in /verif/sim/cisco; covers ACLs, object-groups, access-group bindings and routes (VPN object families only where the generator emits them).",
  "rule": "case = (device config A derived from target B by seeded edit operators, or drawn independently); non-trivial = tool accepted the pair and emitted a non-empty script; distinct = hash of (device text, target text)",
  "quick": B(6000, 40), "thorough": B(400000, 900),
  "real": REAL_PLAN, "stubs": STUB_PLAN, "assumptions": ASSUME_NODE, "min_nontrivial": 50,
 },
 "C02": {
  "level": "exploration", "design_ref": "DESIGN.md §5 P-C02",
  "technique": "seeded simulation: real drc plans the change, the script (resequence, numbered inserts/deletes, bindings, routes) is executed on an executable IOS device model; block-multiset ACL equivalence + re-compare",
  "level_text": "Seeded search over IOS (device, target) pairs; numbered ACL commands are executed with real sequence-number arithmetic on the IOS model; the resulting filter (runs of same-action entries as multisets) and routes must equal the target's and the second compare must be empty. Sampling, not proof.",
  "level_note": "Trusts the IOS node model; log options are not part of the compared filter semantics because the statement speaks about filtering.",
  "rule": "as C01 with the IOS generator; non-trivial = accepted and non-empty script; distinct = hash of (device text, target text)",
  "quick": B(6000, 40), "thorough": B(400000, 900),
  "real": REAL_PLAN, "stubs": STUB_PLAN, "assumptions": ASSUME_NODE, "min_nontrivial": 50,
 },
 "C07": {
  "level": "exploration", "design_ref": "DESIGN.md §5 P-C07",
  "technique": "seeded simulation with frame-condition invariant: after every executed command of the script the unmanaged part of the device model (computed by an independent reachability analysis) must be textually identical",
  "level_text": "Seeded search over device states with unmanaged clutter (interfaces unknown to the target with their ACLs and groups, untagged unused objects, routes of other VRFs, unmodelled lines, aaa-server); invariant checked after each command prefix. ASA and IOS only in this check; PAN-OS/NSX scoping is checked by the C03/C04 nodes when built.",
  "level_note": "Trusts the node model and the oracle's own reachability computation of the out-of-scope set.",
  "rule": "case = cisco pair with clutter knob; non-trivial = accepted, non-empty script; distinct = hash of texts",
  "quick": B(6000, 40), "thorough": B(400000, 900),
  "real": REAL_PLAN, "stubs": STUB_PLAN, "assumptions": ASSUME_NODE, "min_nontrivial": 50,
 },
 "C08": {
  "level": "exploration", "design_ref": "DESIGN.md §5 P-C08",
  "technique": "seeded simulation: the device model's executor is the invariant checker — every command of every emitted script must be accepted at the moment it is executed (referents exist, nothing referenced is deleted, no duplicate ACE, line/sequence numbers hit, config mode is right)",
  "level_text": "Seeded search over ASA/IOS pairs biased towards sharing patterns; each script position is an executed step on a device model that enforces the rules the statement names.",
  "level_note": "Trusts the node's referential rules (own reference table). PAN-OS/NSX covered by their own nodes when built.",
  "rule": "case = cisco pair; non-trivial = accepted, non-empty script; distinct = hash of texts",
  "quick": B(6000, 40), "thorough": B(400000, 900),
  "real": REAL_PLAN, "stubs": STUB_PLAN, "assumptions": ASSUME_NODE, "min_nontrivial": 50,
 },
 "C14": {
  "level": "exploration", "design_ref": "DESIGN.md §5 P-C14",
  "technique": "seeded simulation with per-step invariant: after each executed script step first-match evaluation of every bound ACL over a 125-packet universe, and route coverage per destination, compared with the old and the new state",
  "level_text": "Each (old,new) pair is decided exactly over the enumerated packet universe at every step; the search is over pairs. Joined two-command lines are one atomic step, object-group membership edits are excluded exactly as the statement says.",
  "level_note": "Trusts the node model's ACL arithmetic and the entry parser of the oracle (generator vocabulary: ip/tcp/udp/icmp, host/net/any/group, eq/range).",
  "rule": "case = cisco pair; non-trivial = accepted, non-empty script; distinct = hash of texts",
  "quick": B(5000, 40), "thorough": B(300000, 900),
  "real": REAL_PLAN, "stubs": STUB_PLAN, "assumptions": ASSUME_NODE, "min_nontrivial": 50,
 },
}

# Properties without a registered check: id -> reason.
NOT_CLAIMED = {
}
