package gen

import (
	"encoding/json"
	"fmt"
	"sort"
	"strings"

	"verif/sim/tape"
)

type NRule struct {
	ID       string
	Action   string
	Seq      int
	Dir      string
	Src, Dst string // "ANY", raw IP, or group path
	Svc      string // "ANY" or service path
	Logged   bool
	Tag      string
	Disabled bool
	Scope    string
	Proto    string
	SrcExcl  bool
	DstExcl  bool
}

type NGroup struct {
	ID     string
	IPs    []string
	ExprID string // device only: id of the single expression ("" = "id")
}

type NSvc struct {
	ID    string
	Proto string // TCP, UDP, ICMP, IP
	Port  string
}

type NPolicy struct {
	ID    string
	Rules []NRule
}

type NConf struct {
	Policies []NPolicy
	Groups   []NGroup
	Services []NSvc
}

const NGrp = "/infra/domains/default/groups/"
const NSv = "/infra/services/"

var nIPs = []string{"10.1.1.10", "10.1.1.20", "10.1.2.30", "10.1.2.40", "10.2.0.0/16", "192.168.1.0/24", "10.9.9.9"}
var nSvcs = []NSvc{{"Netspoc-tcp_80", "TCP", "80"}, {"Netspoc-tcp_22", "TCP", "22"}, {"Netspoc-udp_123", "UDP", "123"},
	{"Netspoc-icmp_8", "ICMP", "8"}, {"Netspoc-proto_50", "IP", "50"}, {"Netspoc-icmp_0", "ICMP", "0"}, {"Netspoc-icmp", "ICMP", ""}}

func (c *NConf) clone() *NConf {
	n := &NConf{}
	for _, p := range c.Policies {
		n.Policies = append(n.Policies, NPolicy{p.ID, append([]NRule(nil), p.Rules...)})
	}
	for _, g := range c.Groups {
		n.Groups = append(n.Groups, NGroup{g.ID, append([]string(nil), g.IPs...), g.ExprID})
	}
	n.Services = append(n.Services, c.Services...)
	return n
}

func (c *NConf) useSvc(s NSvc) string {
	for _, x := range c.Services {
		if x.ID == s.ID {
			return NSv + s.ID
		}
	}
	c.Services = append(c.Services, s)
	return NSv + s.ID
}

func genNEnd(t *tape.Tape, c *NConf) string {
	switch t.Next(6) {
	case 0:
		return "ANY"
	case 1:
		return tape.Pick(t, nIPs[:4])
	case 2:
		return NGrp + "ext-servers" // external group, not managed by Netspoc
	}
	if len(c.Groups) == 0 {
		return tape.Pick(t, nIPs[:4])
	}
	return NGrp + c.Groups[t.Next(len(c.Groups))].ID
}

func genNRule(t *tape.Tape, c *NConf, id, scope string) NRule {
	r := NRule{ID: id, Action: []string{"ALLOW", "ALLOW", "DROP"}[t.Next(3)], Seq: []int{20, 20, 30, 40}[t.Next(4)],
		Dir: []string{"OUT", "IN", "OUT"}[t.Next(3)], Scope: scope, Proto: "IPV4"}
	r.Src, r.Dst = genNEnd(t, c), genNEnd(t, c)
	if t.Next(4) == 0 {
		r.Svc = "ANY"
	} else {
		r.Svc = c.useSvc(tape.Pick(t, nSvcs))
	}
	r.Logged = t.Next(4) == 0
	if t.Next(6) == 0 {
		r.Tag = "T" + fmt.Sprint(t.Next(3))
	}
	if t.Next(8) == 0 {
		r.SrcExcl = r.Src != "ANY"
	}
	if t.Next(10) == 0 {
		r.DstExcl = r.Dst != "ANY"
	}
	return r
}

// GenNsxTarget draws the target.
func GenNsxTarget(t *tape.Tape) *NConf {
	c := &NConf{}
	for i, n := 0, t.Next(4); i < n; i++ {
		g := NGroup{ID: fmt.Sprintf("Netspoc-g%d", i)}
		seen := map[string]bool{}
		for j, m := 0, 1+t.Next(5); j < m; j++ {
			ip := tape.Pick(t, nIPs)
			if !seen[ip] {
				seen[ip] = true
				g.IPs = append(g.IPs, ip)
			}
		}
		sort.Strings(g.IPs)
		c.Groups = append(c.Groups, g)
	}
	for pi, n := 0, 1+t.Next(2); pi < n; pi++ {
		p := NPolicy{ID: fmt.Sprintf("Netspoc-v%d", pi+1)}
		scope := fmt.Sprintf("/infra/tier-0s/v%d", pi+1)
		for i, m := 0, 1+t.Next(6); i < m; i++ {
			p.Rules = append(p.Rules, genNRule(t, c, fmt.Sprintf("r%d", i+1), scope))
		}
		c.Policies = append(c.Policies, p)
	}
	c.prune()
	return c
}

func (c *NConf) prune() {
	used := map[string]bool{}
	for _, p := range c.Policies {
		for _, r := range p.Rules {
			used[r.Src], used[r.Dst], used[r.Svc] = true, true, true
		}
	}
	var gs []NGroup
	for _, g := range c.Groups {
		if used[NGrp+g.ID] {
			gs = append(gs, g)
		}
	}
	c.Groups = gs
	var ss []NSvc
	for _, s := range c.Services {
		if used[NSv+s.ID] {
			ss = append(ss, s)
		}
	}
	c.Services = ss
}

// DeriveNsxDevice derives the manager state from the target.
func DeriveNsxDevice(t *tape.Tape, b *NConf) (*NConf, []string) {
	a := b.clone()
	var ops []string
	rename := func(old, nw string) {
		for i := range a.Groups {
			if a.Groups[i].ID == old {
				a.Groups[i].ID = nw
			}
		}
		for pi := range a.Policies {
			for ri := range a.Policies[pi].Rules {
				r := &a.Policies[pi].Rules[ri]
				if r.Src == NGrp+old {
					r.Src = NGrp + nw
				}
				if r.Dst == NGrp+old {
					r.Dst = NGrp + nw
				}
			}
		}
	}
	hasGroup := func(id string) bool {
		for _, g := range a.Groups {
			if g.ID == id {
				return true
			}
		}
		return false
	}
	for n := t.Next(7); n > 0; n-- {
		switch t.Next(16) {
		case 0:
			if len(a.Policies) > 0 {
				p := &a.Policies[t.Next(len(a.Policies))]
				if len(p.Rules) > 0 {
					j := t.Next(len(p.Rules))
					ops = append(ops, "rule missing on device: "+p.ID+"/"+p.Rules[j].ID)
					p.Rules = append(p.Rules[:j:j], p.Rules[j+1:]...)
				}
			}
		case 1:
			if len(a.Policies) > 0 {
				p := &a.Policies[t.Next(len(a.Policies))]
				r := genNRule(t, a, fmt.Sprintf("old%d", t.Next(4)), "/infra/tier-0s/v1")
				dup := false
				for _, x := range p.Rules {
					if x.ID == r.ID {
						dup = true
					}
				}
				if !dup {
					p.Rules = append(p.Rules, r)
					ops = append(ops, "extra rule on device: "+p.ID+"/"+r.ID)
				}
			}
		case 2: // rule ids differ
			if len(a.Policies) > 0 {
				p := &a.Policies[t.Next(len(a.Policies))]
				for i := range p.Rules {
					if t.Next(2) == 0 {
						p.Rules[i].ID += "-1"
					}
				}
				ops = append(ops, "rule ids with suffix on device in "+p.ID)
			}
		case 3: // group renamed on device
			if len(a.Groups) > 0 {
				g := a.Groups[t.Next(len(a.Groups))].ID
				nn := fmt.Sprintf("%s-%d", g, 1+t.Next(2))
				if !hasGroup(nn) {
					rename(g, nn)
					ops = append(ops, "group "+g+" is "+nn+" on device")
				}
			}
		case 4, 5: // group membership differs
			if len(a.Groups) > 0 {
				g := &a.Groups[t.Next(len(a.Groups))]
				if t.Next(2) == 0 && len(g.IPs) > 1 {
					k := 1
					if len(g.IPs) > 2 && t.Next(2) == 0 {
						k = len(g.IPs) - 1
					}
					g.IPs = g.IPs[k:]
					ops = append(ops, fmt.Sprintf("group %s lacks %d addresses on device", g.ID, k))
				} else {
					for k := 1 + t.Next(4); k > 0; k-- {
						ip := fmt.Sprintf("10.7.%d.%d", t.Next(3), 1+t.Next(5))
						dup := false
						for _, x := range g.IPs {
							if x == ip {
								dup = true
							}
						}
						if !dup {
							g.IPs = append(g.IPs, ip)
						}
					}
					sort.Strings(g.IPs)
					ops = append(ops, "group "+g.ID+" has extra addresses on device")
				}
			}
		case 6: // identical copy of a group (tie); maybe one rule uses the copy
			if len(a.Groups) > 0 {
				g := a.Groups[t.Next(len(a.Groups))]
				nn := g.ID + "-copy"
				if !hasGroup(nn) {
					a.Groups = append(a.Groups, NGroup{ID: nn, IPs: append([]string(nil), g.IPs...)})
					used := false
					for pi := range a.Policies {
						for ri := range a.Policies[pi].Rules {
							r := &a.Policies[pi].Rules[ri]
							if !used && r.Src == NGrp+g.ID && t.Next(2) == 0 {
								r.Src = NGrp + nn
								used = true
							}
						}
					}
					ops = append(ops, fmt.Sprintf("copy of group %s on device (used: %v)", g.ID, used))
				}
			}
		case 7: // service definition differs
			if len(a.Services) > 0 {
				j := t.Next(len(a.Services))
				switch {
				case a.Services[j].Proto == "ICMP" && a.Services[j].Port == "":
					a.Services[j].Port = "0"
				case a.Services[j].Proto == "ICMP" && a.Services[j].Port == "0":
					a.Services[j].Port = ""
				case a.Services[j].Proto == "ICMP":
					a.Services[j].Port = "0"
				default:
					a.Services[j].Port = "8080"
				}
				ops = append(ops, "service "+a.Services[j].ID+" differs on device")
			}
		case 8: // left-over objects
			hasS := false
			for _, x := range a.Services {
				if x.ID == "Netspoc-tcp_9999" {
					hasS = true
				}
			}
			if !hasS {
				a.Services = append(a.Services, NSvc{"Netspoc-tcp_9999", "TCP", "9999"})
			}
			if !hasGroup("Netspoc-gold") {
				a.Groups = append(a.Groups, NGroup{ID: "Netspoc-gold", IPs: []string{"10.66.0.1"}})
			}
			ops = append(ops, "left-over Netspoc objects on device")
		case 9: // action / sequence number of a rule differs
			if len(a.Policies) > 0 {
				p := &a.Policies[t.Next(len(a.Policies))]
				if len(p.Rules) > 0 {
					r := &p.Rules[t.Next(len(p.Rules))]
					if t.Next(2) == 0 {
						r.Seq += 10
					} else if r.Action == "ALLOW" {
						r.Action = "DROP"
					} else {
						r.Action = "ALLOW"
					}
					ops = append(ops, "rule "+p.ID+"/"+r.ID+" differs on device")
				}
			}
		case 10: // whole policy missing on device / extra policy
			if len(a.Policies) > 1 && t.Next(2) == 0 {
				ops = append(ops, "policy missing on device: "+a.Policies[len(a.Policies)-1].ID)
				a.Policies = a.Policies[:len(a.Policies)-1]
			} else {
				has := false
				for _, x := range a.Policies {
					if x.ID == "Netspoc-v9" {
						has = true
					}
				}
				if !has {
					p := NPolicy{ID: "Netspoc-v9"}
					p.Rules = append(p.Rules, genNRule(t, a, "r1", "/infra/tier-0s/v9"))
					a.Policies = append(a.Policies, p)
					ops = append(ops, "extra policy Netspoc-v9 on device")
				}
			}
		case 11: // endpoint of a rule differs (raw ip vs group …)
			if len(a.Policies) > 0 {
				p := &a.Policies[t.Next(len(a.Policies))]
				if len(p.Rules) > 0 {
					r := &p.Rules[t.Next(len(p.Rules))]
					r.Dst = genNEnd(t, a)
					ops = append(ops, "destination of rule "+p.ID+"/"+r.ID+" differs on device")
				}
			}
		case 13: // exclusion flag of a rule differs
			if len(a.Policies) > 0 {
				p := &a.Policies[t.Next(len(a.Policies))]
				if len(p.Rules) > 0 {
					r := &p.Rules[t.Next(len(p.Rules))]
					if t.Next(2) == 0 && r.Src != "ANY" {
						r.SrcExcl = !r.SrcExcl
						ops = append(ops, "sources_excluded of rule "+p.ID+"/"+r.ID+" differs on device")
					} else if r.Dst != "ANY" {
						r.DstExcl = !r.DstExcl
						ops = append(ops, "destinations_excluded of rule "+p.ID+"/"+r.ID+" differs on device")
					}
				}
			}
		case 14, 15: // name shuffle: a group of the target is unknown on the device and its
			// id (and id-1, id-2) is taken by other groups that are in use
			if len(a.Groups) >= 2 {
				ti := t.Next(len(a.Groups))
				tg := a.Groups[ti].ID
				// remove the rules that use it and the group itself
				for pi := range a.Policies {
					var keep []NRule
					for _, r := range a.Policies[pi].Rules {
						if r.Src != NGrp+tg && r.Dst != NGrp+tg {
							keep = append(keep, r)
						}
					}
					a.Policies[pi].Rules = keep
				}
				a.Groups = append(a.Groups[:ti:ti], a.Groups[ti+1:]...)
				names := []string{tg, tg + "-1", tg + "-2"}
				k := 0
				for i := range a.Groups {
					if k < len(names) && t.Next(3) != 0 && !hasGroup(names[k]) && !strings.HasPrefix(a.Groups[i].ID, tg) {
						old := a.Groups[i].ID
						rename(old, names[k])
						ops = append(ops, "group "+old+" is "+names[k]+" on device; "+tg+" itself unknown there")
						k++
					}
				}
			}
		case 12: // rule order on device differs (the manager returns them in another order)
			if len(a.Policies) > 0 {
				p := &a.Policies[t.Next(len(a.Policies))]
				if len(p.Rules) > 1 {
					j := t.Next(len(p.Rules) - 1)
					p.Rules[j], p.Rules[j+1] = p.Rules[j+1], p.Rules[j]
					ops = append(ops, "rule order differs on device in "+p.ID)
				}
			}
		}
	}
	if t.Next(3) == 0 {
		for i := range a.Groups {
			if t.Next(2) == 0 {
				a.Groups[i].ExprID = fmt.Sprintf("e-%d", 4711+i)
			}
		}
		ops = append(ops, "expression ids assigned by the manager")
	}
	for pi := range a.Policies {
		seen := map[string]bool{}
		var rules []NRule
		for _, r := range a.Policies[pi].Rules {
			if !seen[r.ID] {
				seen[r.ID] = true
				rules = append(rules, r)
			}
		}
		a.Policies[pi].Rules = rules
	}
	return a, ops
}

func (r NRule) JSON(withID bool) map[string]any {
	m := map[string]any{
		"resource_type": "Rule", "action": r.Action, "sequence_number": r.Seq, "direction": r.Dir,
		"source_groups": []any{r.Src}, "destination_groups": []any{r.Dst}, "services": []any{r.Svc},
		"scope": []any{r.Scope}, "ip_protocol": r.Proto,
	}
	if withID {
		m["id"] = r.ID
	}
	if r.Logged {
		m["logged"] = true
	}
	if r.Tag != "" {
		m["tag"] = r.Tag
	}
	if r.Disabled {
		m["disabled"] = true
	}
	if r.SrcExcl {
		m["sources_excluded"] = true
	}
	if r.DstExcl {
		m["destinations_excluded"] = true
	}
	return m
}

func (g NGroup) JSON() map[string]any {
	l := make([]any, len(g.IPs))
	for i, x := range g.IPs {
		l[i] = x
	}
	eid := g.ExprID
	if eid == "" {
		eid = "id"
	}
	return map[string]any{"id": g.ID, "expression": []any{map[string]any{"id": eid, "resource_type": "IPAddressExpression", "ip_addresses": l}}}
}

func (s NSvc) JSON() map[string]any {
	var e map[string]any
	switch s.Proto {
	case "TCP", "UDP":
		e = map[string]any{"id": "id", "resource_type": "L4PortSetServiceEntry", "l4_protocol": s.Proto,
			"destination_ports": []any{s.Port}, "source_ports": []any{}}
	case "ICMP":
		e = map[string]any{"id": "id", "resource_type": "ICMPTypeServiceEntry", "protocol": "ICMPv4"}
		if s.Port != "" { // no type: any ICMP
			var typ int
			fmt.Sscanf(s.Port, "%d", &typ)
			e["icmp_type"] = typ
		}
	default:
		var num int
		fmt.Sscanf(s.Port, "%d", &num)
		e = map[string]any{"id": "id", "resource_type": "IPProtocolServiceEntry", "protocol_number": num}
	}
	return map[string]any{"id": s.ID, "service_entries": []any{e}}
}

// NetspocJSON renders the code file.
func (c *NConf) NetspocJSON() string {
	out := map[string]any{}
	var gl, sl, pl []any
	for _, g := range c.Groups {
		gl = append(gl, g.JSON())
	}
	for _, s := range c.Services {
		sl = append(sl, s.JSON())
	}
	for _, p := range c.Policies {
		var rl []any
		for _, r := range p.Rules {
			rl = append(rl, r.JSON(true))
		}
		pl = append(pl, map[string]any{"id": p.ID, "resource_type": "GatewayPolicy", "rules": rl})
	}
	if gl != nil {
		out["groups"] = gl
	}
	if sl != nil {
		out["services"] = sl
	}
	if pl != nil {
		out["policies"] = pl
	}
	b, _ := json.MarshalIndent(out, "", " ")
	return "# generated by Netspoc\n" + string(b) + "\n"
}

var _ = strings.Join
