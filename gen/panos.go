package gen

import (
	"fmt"
	"sort"
	"strings"

	"verif/sim/tape"
)

type PAddr struct{ Name, IP string }
type PGroup struct {
	Name    string
	Members []string
}
type PSvc struct {
	Name, Proto, Port string
	Extra             string // further XML below <tcp>/<udp>
}
type PRule struct {
	Name, Action, From, To string
	Src, Dst, Svc          []string
	LogEnd                 bool
	Extra                  string // unknown extra XML
	Append                 bool   // raw: <APPEND/>
}

type PVsys struct {
	Name    string
	Display string
	Rules   []PRule
	Addrs   []PAddr
	Groups  []PGroup
	Svcs    []PSvc
	SGroups []PGroup
	// device only: extra XML inside the vsys that the tool does not model
	Opaque string
	// device only: the vsys has no <display-name> at all
	NoDisplay bool
}

type PConf struct {
	Hostname string
	Vsys     []*PVsys
	Shared   string // XML of <shared>…</shared> content (device only)
}

var pIPs = []string{"10.1.1.10/32", "10.1.1.20/32", "10.1.2.0/24", "10.1.3.0/24", "10.2.0.0/16", "192.168.1.1/32", "10.9.9.0/24"}

func addrName(ip string) string {
	base, bits, _ := strings.Cut(ip, "/")
	if bits == "32" {
		return "IP_" + base
	}
	return "NET_" + base + "_" + bits
}

var pSvcs = []PSvc{{"tcp 80", "tcp", "80", ""}, {"tcp 22", "tcp", "22", ""}, {"udp 123", "udp", "123", ""}, {"udp 53", "udp", "53", ""}, {"tcp 1024-65535", "tcp", "1024-65535", ""},
	{"tcp 1024-65535:80", "tcp", "80", "<source-port>1024-65535</source-port>"}}

func (v *PVsys) clone() *PVsys {
	n := *v
	n.Rules = nil
	for _, r := range v.Rules {
		r.Src, r.Dst, r.Svc = append([]string(nil), r.Src...), append([]string(nil), r.Dst...), append([]string(nil), r.Svc...)
		n.Rules = append(n.Rules, r)
	}
	n.Addrs = append([]PAddr(nil), v.Addrs...)
	n.Svcs = append([]PSvc(nil), v.Svcs...)
	n.Groups, n.SGroups = nil, nil
	for _, g := range v.Groups {
		n.Groups = append(n.Groups, PGroup{g.Name, append([]string(nil), g.Members...)})
	}
	for _, g := range v.SGroups {
		n.SGroups = append(n.SGroups, PGroup{g.Name, append([]string(nil), g.Members...)})
	}
	return &n
}

func (v *PVsys) hasAddr(name string) bool {
	for _, a := range v.Addrs {
		if a.Name == name {
			return true
		}
	}
	return false
}

func (v *PVsys) useAddr(ip string) string {
	n := addrName(ip)
	if !v.hasAddr(n) {
		v.Addrs = append(v.Addrs, PAddr{n, ip})
	}
	return n
}

func (v *PVsys) useSvc(s PSvc) string {
	for _, x := range v.Svcs {
		if x.Name == s.Name {
			return s.Name
		}
	}
	v.Svcs = append(v.Svcs, s)
	return s.Name
}

func genObjList(t *tape.Tape, v *PVsys) []string {
	switch t.Next(5) {
	case 0:
		return []string{"any"}
	case 1, 2:
		if len(v.Groups) > 0 {
			return []string{v.Groups[t.Next(len(v.Groups))].Name}
		}
	}
	var l []string
	seen := map[string]bool{}
	for i, n := 0, 1+t.Next(3); i < n; i++ {
		ip := tape.Pick(t, pIPs)
		if !seen[ip] {
			seen[ip] = true
			l = append(l, v.useAddr(ip))
		}
	}
	sort.Strings(l)
	return l
}

func genPRule(t *tape.Tape, v *PVsys, name string) PRule {
	r := PRule{Name: name, Action: []string{"allow", "allow", "drop"}[t.Next(3)],
		From: []string{"z1", "z2"}[t.Next(2)], To: []string{"z2", "z3"}[t.Next(2)], LogEnd: true}
	r.Src = genObjList(t, v)
	r.Dst = genObjList(t, v)
	switch t.Next(5) {
	case 0:
		r.Svc = []string{"any"}
	case 1:
		r.Svc = []string{"application-default"}
	case 2:
		if len(v.SGroups) > 0 {
			r.Svc = []string{v.SGroups[t.Next(len(v.SGroups))].Name}
			break
		}
		fallthrough
	default:
		seen := map[string]bool{}
		for i, n := 0, 1+t.Next(2); i < n; i++ {
			s := tape.Pick(t, pSvcs)
			if !seen[s.Name] {
				seen[s.Name] = true
				r.Svc = append(r.Svc, v.useSvc(s))
			}
		}
		sort.Strings(r.Svc)
	}
	if t.Next(8) == 0 {
		r.Extra = "<description>handmade " + fmt.Sprint(t.Next(9)) + "</description>"
	}
	return r
}

// GenPanTarget draws the target of one vsys.
func GenPanTarget(t *tape.Tape, name string) *PVsys {
	v := &PVsys{Name: name, Display: "FW-managed-by-Netspoc"}
	for i, n := 0, t.Next(4); i < n; i++ {
		g := PGroup{Name: fmt.Sprintf("g%d", i)}
		seen := map[string]bool{}
		for j, m := 0, 1+t.Next(5); j < m; j++ {
			ip := tape.Pick(t, pIPs)
			if !seen[ip] {
				seen[ip] = true
				g.Members = append(g.Members, v.useAddr(ip))
			}
		}
		sort.Strings(g.Members)
		v.Groups = append(v.Groups, g)
	}
	if t.Next(4) == 0 {
		sg := PGroup{Name: "sg0"}
		for _, s := range pSvcs[:2] {
			sg.Members = append(sg.Members, v.useSvc(s))
		}
		v.SGroups = append(v.SGroups, sg)
	}
	for i, n := 0, 1+t.Next(6); i < n; i++ {
		v.Rules = append(v.Rules, genPRule(t, v, fmt.Sprintf("r%d", i+1)))
	}
	v.prune()
	return v
}

// prune removes objects no rule uses (the target holds needed objects only).
func (v *PVsys) prune() {
	used := map[string]bool{}
	for _, r := range v.Rules {
		for _, l := range [][]string{r.Src, r.Dst, r.Svc} {
			for _, m := range l {
				used[m] = true
			}
		}
	}
	var gs []PGroup
	for _, g := range v.Groups {
		if used[g.Name] {
			gs = append(gs, g)
			for _, m := range g.Members {
				used[m] = true
			}
		}
	}
	v.Groups = gs
	var sgs []PGroup
	for _, g := range v.SGroups {
		if used[g.Name] {
			sgs = append(sgs, g)
			for _, m := range g.Members {
				used[m] = true
			}
		}
	}
	v.SGroups = sgs
	var as []PAddr
	for _, a := range v.Addrs {
		if used[a.Name] {
			as = append(as, a)
		}
	}
	v.Addrs = as
	var ss []PSvc
	for _, s := range v.Svcs {
		if used[s.Name] {
			ss = append(ss, s)
		}
	}
	v.Svcs = ss
}

// DerivePanDevice derives the device's vsys from the target by edits.
func DerivePanDevice(t *tape.Tape, b *PVsys) (*PVsys, []string) {
	a := b.clone()
	var ops []string
	renameGroup := func(old, nw string) {
		for i := range a.Groups {
			if a.Groups[i].Name == old {
				a.Groups[i].Name = nw
			}
		}
		for i := range a.Rules {
			for _, l := range [][]string{a.Rules[i].Src, a.Rules[i].Dst} {
				for j := range l {
					if l[j] == old {
						l[j] = nw
					}
				}
			}
		}
	}
	for n := t.Next(7); n > 0; n-- {
		switch t.Next(16) {
		case 0: // rule missing on device
			if len(a.Rules) > 0 {
				j := t.Next(len(a.Rules))
				ops = append(ops, "rule missing on device: "+a.Rules[j].Name)
				a.Rules = append(a.Rules[:j:j], a.Rules[j+1:]...)
			}
		case 1: // extra rule on device
			r := genPRule(t, a, fmt.Sprintf("old%d", t.Next(5)))
			dup := false
			for _, x := range a.Rules {
				if x.Name == r.Name {
					dup = true
				}
			}
			if !dup {
				j := t.Next(len(a.Rules) + 1)
				a.Rules = append(a.Rules[:j:j], append([]PRule{r}, a.Rules[j:]...)...)
				ops = append(ops, "extra rule on device: "+r.Name)
			}
		case 2: // rules reordered
			if len(a.Rules) > 1 {
				j := t.Next(len(a.Rules))
				r := a.Rules[j]
				rest := append(a.Rules[:j:j], a.Rules[j+1:]...)
				p := t.Next(len(rest) + 1)
				a.Rules = append(rest[:p:p], append([]PRule{r}, rest[p:]...)...)
				ops = append(ops, fmt.Sprintf("rule %s moved %d->%d", r.Name, j, p))
			}
		case 3: // group renamed on device
			if len(a.Groups) > 0 {
				g := a.Groups[t.Next(len(a.Groups))].Name
				nn := fmt.Sprintf("%s-%d", g, 1+t.Next(3))
				taken := false
				for _, x := range a.Groups {
					if x.Name == nn {
						taken = true
					}
				}
				if !taken {
					renameGroup(g, nn)
					ops = append(ops, "group "+g+" is "+nn+" on device")
				}
			}
		case 4, 5: // group membership differs
			if len(a.Groups) > 0 {
				g := &a.Groups[t.Next(len(a.Groups))]
				if t.Next(2) == 0 && len(g.Members) > 1 {
					k := 1
					if len(g.Members) > 3 && t.Next(2) == 0 {
						k = len(g.Members) - 1
					}
					g.Members = g.Members[k:]
					ops = append(ops, fmt.Sprintf("group %s lacks %d member(s) on device", g.Name, k))
				} else {
					for k := 1 + t.Next(3); k > 0; k-- {
						m := a.useAddr(tape.Pick(t, pIPs))
						dup := false
						for _, x := range g.Members {
							if x == m {
								dup = true
							}
						}
						if !dup {
							g.Members = append(g.Members, m)
						}
					}
					sort.Strings(g.Members)
					ops = append(ops, "group "+g.Name+" has extra members on device")
				}
			}
		case 6: // identical copy of a group, one rule uses the copy (split)
			if len(a.Groups) > 0 {
				g := a.Groups[t.Next(len(a.Groups))]
				nn := g.Name + "-copy"
				exists := false
				for _, x := range a.Groups {
					if x.Name == nn {
						exists = true
					}
				}
				if !exists {
					a.Groups = append(a.Groups, PGroup{nn, append([]string(nil), g.Members...)})
					done := false
					for i := range a.Rules {
						for _, l := range [][]string{a.Rules[i].Src, a.Rules[i].Dst} {
							for j := range l {
								if !done && l[j] == g.Name && t.Next(2) == 0 {
									l[j] = nn
									done = true
								}
							}
						}
					}
					ops = append(ops, "copy of group "+g.Name+" on device (used: "+fmt.Sprint(done)+")")
				}
			}
		case 7: // same name, different value
			if len(a.Addrs) > 0 {
				j := t.Next(len(a.Addrs))
				a.Addrs[j].IP = "10.250.0.0/24"
				ops = append(ops, "address "+a.Addrs[j].Name+" has another value on device")
			}
		case 8:
			if len(a.Svcs) > 0 {
				j := t.Next(len(a.Svcs))
				if t.Next(2) == 0 {
					a.Svcs[j].Port = "8080"
					ops = append(ops, "service "+a.Svcs[j].Name+" has another port on device")
				} else if a.Svcs[j].Extra == "" {
					a.Svcs[j].Extra = "<source-port>1-1023</source-port>"
					ops = append(ops, "service "+a.Svcs[j].Name+" has a source-port on device")
				} else {
					a.Svcs[j].Extra = ""
					ops = append(ops, "service "+a.Svcs[j].Name+" lacks its source-port on device")
				}
			}
		case 9: // member list of a rule differs
			if len(a.Rules) > 0 {
				r := &a.Rules[t.Next(len(a.Rules))]
				l := &r.Src
				if t.Next(2) == 0 {
					l = &r.Dst
				}
				if len(*l) > 1 && t.Next(2) == 0 {
					*l = (*l)[1:]
				} else if !(len(*l) == 1 && ((*l)[0] == "any" || isGroup(a, (*l)[0]))) {
					m := a.useAddr(tape.Pick(t, pIPs))
					dup := false
					for _, x := range *l {
						if x == m {
							dup = true
						}
					}
					if !dup {
						*l = append(*l, m)
						sort.Strings(*l)
					}
				}
				ops = append(ops, "address list of rule "+r.Name+" differs")
			}
		case 10: // services of a rule differ
			if len(a.Rules) > 0 {
				r := &a.Rules[t.Next(len(a.Rules))]
				r.Svc = []string{a.useSvc(tape.Pick(t, pSvcs))}
				ops = append(ops, "services of rule "+r.Name+" differ")
			}
		case 11: // rule names on device carry suffixes of earlier runs
			for i := range a.Rules {
				if t.Next(2) == 0 {
					a.Rules[i].Name += "-1"
				}
			}
			ops = append(ops, "rule names with suffix on device")
			if len(a.Rules) > 1 && t.Next(2) == 0 {
				// ... and do not belong to the same rules any more.
				first := a.Rules[0].Name
				for i := 0; i+1 < len(a.Rules); i++ {
					a.Rules[i].Name = a.Rules[i+1].Name
				}
				a.Rules[len(a.Rules)-1].Name = first
				ops = append(ops, "rule names rotated on device")
			}
		case 12: // unused objects on device
			a.useAddr("10.99.0.0/24")
			a.Groups = append(a.Groups, PGroup{"unused-group", []string{a.useAddr("10.99.1.0/24")}})
			ops = append(ops, "unused objects on device")
		case 13: // action of a rule differs
			if len(a.Rules) > 0 {
				r := &a.Rules[t.Next(len(a.Rules))]
				if r.Action == "allow" {
					r.Action = "drop"
				} else {
					r.Action = "allow"
				}
				ops = append(ops, "action of rule "+r.Name+" differs")
			}
		case 15: // a rule of the target is missing on the device while its name and
			// name-1 are carried by other rules there (left by earlier approves)
			if len(a.Rules) >= 3 {
				i := t.Next(len(a.Rules))
				name := a.Rules[i].Name
				a.Rules = append(a.Rules[:i:i], a.Rules[i+1:]...)
				taken := func(n string) bool {
					for _, x := range a.Rules {
						if x.Name == n {
							return true
						}
					}
					return false
				}
				j := t.Next(len(a.Rules))
				k := (j + 1 + t.Next(len(a.Rules)-1)) % len(a.Rules)
				if !taken(name) && !taken(name+"-1") {
					a.Rules[j].Name = name
					a.Rules[k].Name = name + "-1"
					ops = append(ops, "rule "+name+" missing on device, its name and "+name+"-1 carried by other rules")
				}
			}
		case 14: // members of a service-group differ
			if len(a.SGroups) > 0 {
				g := &a.SGroups[t.Next(len(a.SGroups))]
				if t.Next(2) == 0 && len(g.Members) > 1 {
					g.Members = g.Members[1:]
					ops = append(ops, "service-group "+g.Name+" lacks a member on device")
				} else {
					g.Members = append(g.Members, a.useSvc(pSvcs[2+t.Next(2)]))
					ops = append(ops, "service-group "+g.Name+" has an extra member on device")
				}
			}
		}
	}
	// Rule names must stay unique on the device.
	seen := map[string]bool{}
	var rules []PRule
	for _, r := range a.Rules {
		if !seen[r.Name] {
			seen[r.Name] = true
			rules = append(rules, r)
		}
	}
	a.Rules = rules
	return a, ops
}

func isGroup(v *PVsys, n string) bool {
	for _, g := range v.Groups {
		if g.Name == n {
			return true
		}
	}
	return false
}

func members(tag string, l []string) string {
	var b strings.Builder
	b.WriteString("<" + tag + ">")
	for _, m := range l {
		b.WriteString("<member>" + m + "</member>")
	}
	b.WriteString("</" + tag + ">")
	return b.String()
}

// XML renders the vsys entry.  device adds what only devices print.
func (v *PVsys) XML(device bool, spell int) string {
	var b strings.Builder
	fmt.Fprintf(&b, `<entry name="%s">`, v.Name)
	if device {
		if !v.NoDisplay {
			b.WriteString("<display-name>" + v.Display + "</display-name>")
		}
		b.WriteString(v.Opaque)
	}
	b.WriteString("<rulebase><security><rules>")
	for _, r := range v.Rules {
		fmt.Fprintf(&b, `<entry name="%s">`, r.Name)
		b.WriteString("<action>" + r.Action + "</action>")
		b.WriteString(members("from", []string{r.From}) + members("to", []string{r.To}))
		b.WriteString(members("source", r.Src) + members("destination", r.Dst) + members("service", r.Svc))
		b.WriteString(members("application", []string{"any"}))
		if device && spell&1 != 0 {
			// defaults a device prints although nobody configured them
			b.WriteString(members("source-user", []string{"any"}) + members("category", []string{"any"}))
		}
		b.WriteString("<rule-type>interzone</rule-type><log-start>no</log-start>")
		if r.LogEnd {
			b.WriteString("<log-end>yes</log-end>")
		}
		b.WriteString(r.Extra)
		if r.Append && !device {
			b.WriteString("<APPEND/>")
		}
		b.WriteString("</entry>")
	}
	b.WriteString("</rules></security></rulebase>")
	if len(v.Groups) > 0 {
		b.WriteString("<address-group>")
		for _, g := range v.Groups {
			fmt.Fprintf(&b, `<entry name="%s">%s</entry>`, g.Name, members("static", g.Members))
		}
		b.WriteString("</address-group>")
	}
	if len(v.Addrs) > 0 {
		b.WriteString("<address>")
		for _, a := range v.Addrs {
			fmt.Fprintf(&b, `<entry name="%s"><ip-netmask>%s</ip-netmask></entry>`, a.Name, a.IP)
		}
		b.WriteString("</address>")
	}
	if len(v.SGroups) > 0 {
		b.WriteString("<service-group>")
		for _, g := range v.SGroups {
			fmt.Fprintf(&b, `<entry name="%s">%s</entry>`, g.Name, members("members", g.Members))
		}
		b.WriteString("</service-group>")
	}
	if len(v.Svcs) > 0 {
		b.WriteString("<service>")
		for _, s := range v.Svcs {
			fmt.Fprintf(&b, `<entry name="%s"><protocol><%s><port>%s</port>%s</%s></protocol></entry>`, s.Name, s.Proto, s.Port, s.Extra, s.Proto)
		}
		b.WriteString("</service>")
	}
	b.WriteString("</entry>")
	return b.String()
}

// NetspocXML renders a complete code file.
func PanNetspocXML(vs []*PVsys) string {
	var b strings.Builder
	b.WriteString(`<config><devices><entry name="localhost.localdomain"><vsys>`)
	for _, v := range vs {
		b.WriteString(v.XML(false, 0))
	}
	b.WriteString("</vsys></entry></devices></config>\n")
	return b.String()
}

// PanDeviceXML renders the device's candidate <config>.
func PanDeviceXML(c *PConf, spell int) string {
	var b strings.Builder
	b.WriteString("<config>")
	if c.Shared != "" {
		b.WriteString("<shared>" + c.Shared + "</shared>")
	}
	b.WriteString(`<devices><entry name="localhost.localdomain"><deviceconfig><system><hostname>` + c.Hostname +
		`</hostname><login-banner>authorized use only</login-banner></system></deviceconfig><vsys>`)
	for _, v := range c.Vsys {
		b.WriteString(v.XML(true, spell))
	}
	b.WriteString("</vsys></entry></devices></config>")
	return b.String()
}
