// Package gen holds the seeded generators of device states and targets.
// Every choice is drawn from a tape, so a case is a pure function of it and
// shrinks with it.
package gen

import (
	"fmt"
	"net/netip"
	"strings"

	"verif/sim/cisco"
	"verif/sim/tape"
)

type GAddr struct {
	Kind string // any, host, net, group
	Val  string // ip, "ip/len" index, group name
	Bits int
}

type GACE struct {
	Remark string
	Permit bool
	Proto  string
	Src    GAddr
	Dst    GAddr
	Port   string // "", "eq 80", "range 1024 65535"
	Log    string // "", "log", "log 4", "log-input"
}

type GGroup struct {
	Name    string
	Members []GAddr
}

type GACL struct {
	Name  string
	Lines []GACE
}

type GBind struct {
	Iface string
	Dir   string
	ACL   string
}

type GRoute struct {
	V6    bool
	Iface string // ASA
	VRF   string // IOS
	Dst   string // ip
	Bits  int
	Hop   string
}

type GIface struct {
	HW     string // Ethernet0/0, GigabitEthernet0/1
	Name   string // ASA nameif
	VRF    string
	Shut   bool
	Addr   string
	Extras []string
}

type GCEntry struct {
	Seq   int
	Peer  string
	ACL   string // ASA: match address; IOS: filter ACL (set ip access-group ACL in)
	Trans string // ASA transform-set / ikev2 proposal name
	PFS   string // "", "group2", "group5"
	Life  string // "", seconds
}

type GCrypto struct {
	Map     string
	Iface   string
	Entries []GCEntry
}

type GTrans struct {
	Name string
	Spec string   // ikev1 transform-set definition
	V2   []string // ikev2 ipsec-proposal sub-commands (then Spec is empty)
}

type GConf struct {
	Crypto []GCrypto
	Trans  []GTrans
	Kind   string
	Ifaces []GIface
	Groups []GGroup
	ACLs   []GACL
	Binds  []GBind
	Routes []GRoute
	// Unmanaged clutter (device side only).
	Clutter []*cisco.Obj
}

var hosts = []string{"10.1.1.1", "10.1.1.2", "10.1.2.1", "10.2.0.1", "10.1.1.9", "192.168.1.1"}
var nets = []struct {
	IP   string
	Bits int
}{{"10.1.1.0", 24}, {"10.1.2.0", 24}, {"10.1.0.0", 16}, {"10.0.0.0", 8}, {"10.2.0.0", 24}, {"192.168.1.0", 24}, {"10.1.0.0", 24}, {"10.0.0.0", 16}}

// RouteProbes are the addresses whose route coverage is watched (C14).
func RouteProbes() []netip.Addr {
	var l []netip.Addr
	for _, a := range []string{"10.0.0.1", "10.0.200.1", "10.1.0.1", "10.1.0.200", "10.1.1.1", "10.1.2.1", "10.1.77.1",
		"10.2.0.1", "10.200.0.1", "192.168.1.1", "8.8.8.8", "172.16.0.1"} {
		l = append(l, netip.MustParseAddr(a))
	}
	return l
}

var ports = []string{"eq 80", "eq 22", "eq 443", "eq 53", "range 1024 65535", "eq 25", ""}

// Packets is the universe for first-match evaluation.
func Packets() []cisco.Packet {
	var l []cisco.Packet
	srcs := []string{"10.1.1.1", "10.1.1.2", "10.1.2.1", "10.2.0.1", "172.16.0.1"}
	dsts := []string{"10.1.1.1", "10.1.2.1", "10.2.0.1", "192.168.1.1", "8.8.8.8"}
	svcs := []struct {
		p    string
		port int
	}{{"tcp", 80}, {"tcp", 22}, {"udp", 53}, {"icmp", 8}, {"tcp", 2000}}
	for _, s := range srcs {
		for _, d := range dsts {
			for _, v := range svcs {
				l = append(l, cisco.Packet{Proto: v.p, Src: mustAddr(s), Dst: mustAddr(d), Port: v.port})
			}
		}
	}
	return l
}

func maskOf(bits int, wildcard bool) string {
	var m uint32 = 0
	if bits > 0 {
		m = ^uint32(0) << (32 - uint(bits))
	}
	if wildcard {
		m = ^m
	}
	return fmt.Sprintf("%d.%d.%d.%d", byte(m>>24), byte(m>>16), byte(m>>8), byte(m))
}

func (a GAddr) render(kind string) string {
	switch a.Kind {
	case "any":
		if kind == "ASA" {
			return "any4"
		}
		return "any"
	case "host":
		return "host " + a.Val
	case "net":
		return a.Val + " " + maskOf(a.Bits, kind == "IOS")
	case "group":
		return "object-group " + a.Val
	}
	return "any"
}

func (e GACE) Render(kind string) string {
	if e.Remark != "" {
		return "remark " + e.Remark
	}
	act := "deny"
	if e.Permit {
		act = "permit"
	}
	s := act + " " + e.Proto + " " + e.Src.render(kind) + " " + e.Dst.render(kind)
	if e.Port != "" && (e.Proto == "tcp" || e.Proto == "udp") {
		s += " " + e.Port
	}
	if e.Proto == "icmp" && e.Port != "" {
		s += " " + e.Port
	}
	if e.Log != "" {
		s += " " + e.Log
	}
	if kind == "ASA" {
		return "extended " + s
	}
	return s
}

// key for duplicate detection (log-insensitive).
func (e GACE) key() string {
	c := e
	c.Log = ""
	return c.Render("ASA")
}

type Knobs struct {
	Kind        string
	MaxIfaces   int
	MaxLines    int
	MaxGroups   int
	MaxRoutes   int
	MaxEdits    int
	Clutter     bool // unmanaged content on the device
	Remarks     bool
	LogVariety  bool
	LongACL     bool
	Independent bool // draw A independently of B
	Shaped      bool // Netspoc-shaped ACLs: deny block, permits, final deny; edits keep the shape
	NoShare     bool // never bind one ACL twice on the device
	Crypto      bool // crypto map entries
	DropIfaces  bool // the device lacks interfaces the target uses (the tool must reject the pair)
}

func DefaultKnobs(kind string, t *tape.Tape) Knobs {
	k := Knobs{Kind: kind, MaxIfaces: 1 + t.Next(3), MaxLines: 2 + t.Next(8),
		MaxGroups: t.Next(4), MaxRoutes: t.Next(5), MaxEdits: 1 + t.Next(7)}
	k.Clutter = t.Chance(1, 3)
	k.Remarks = t.Chance(1, 4)
	k.LogVariety = t.Chance(1, 3)
	k.Independent = t.Chance(1, 12)
	k.Crypto = t.Chance(1, 4)
	if kind == "IOS" {
		k.MaxGroups = 0
	}
	return k
}

func genAddr(t *tape.Tape, groups []GGroup) GAddr {
	switch n := t.Next(10); {
	case n < 3:
		return GAddr{Kind: "host", Val: tape.Pick(t, hosts)}
	case n < 6:
		x := tape.Pick(t, nets)
		return GAddr{Kind: "net", Val: x.IP, Bits: x.Bits}
	case n < 8 && len(groups) > 0:
		return GAddr{Kind: "group", Val: tape.Pick(t, groups).Name}
	}
	return GAddr{Kind: "any"}
}

func genACE(t *tape.Tape, k Knobs, groups []GGroup) GACE {
	e := GACE{Permit: t.Next(4) != 3}
	e.Proto = []string{"ip", "tcp", "tcp", "udp", "icmp"}[t.Next(5)]
	e.Src = genAddr(t, groups)
	e.Dst = genAddr(t, groups)
	switch e.Proto {
	case "tcp", "udp":
		e.Port = tape.Pick(t, ports)
	case "icmp":
		e.Port = []string{"", "8", "0", "3"}[t.Next(4)]
	}
	if k.LogVariety {
		if k.Kind == "ASA" {
			e.Log = []string{"", "", "log", "log 4", "log 3 interval 30", "log disable"}[t.Next(6)]
		} else {
			e.Log = []string{"", "", "log", "log-input"}[t.Next(4)]
		}
	}
	return e
}

func genACL(t *tape.Tape, k Knobs, name string, groups []GGroup) GACL {
	a := GACL{Name: name}
	if k.Shaped {
		seen := map[string]bool{}
		for i, n := 0, t.Next(3); i < n; i++ {
			e := GACE{Proto: "ip", Src: GAddr{Kind: "any"}, Dst: GAddr{Kind: "host", Val: tape.Pick(t, hosts)}}
			if !seen[e.key()] {
				seen[e.key()] = true
				a.Lines = append(a.Lines, e)
			}
		}
		for i, n := 0, 1+t.Next(k.MaxLines); i < n; i++ {
			e := genACE(t, k, groups)
			e.Permit = true
			if !seen[e.key()] {
				seen[e.key()] = true
				a.Lines = append(a.Lines, e)
			}
		}
		a.Lines = append(a.Lines, GACE{Proto: "ip", Src: GAddr{Kind: "any"}, Dst: GAddr{Kind: "any"}})
		return a
	}
	n := 1 + t.Next(k.MaxLines)
	seen := map[string]bool{}
	for i := 0; i < n; i++ {
		if k.Remarks && t.Chance(1, 6) {
			a.Lines = append(a.Lines, GACE{Remark: fmt.Sprintf("rule %d", t.Next(50))})
			continue
		}
		e := genACE(t, k, groups)
		if seen[e.key()] {
			continue
		}
		seen[e.key()] = true
		a.Lines = append(a.Lines, e)
	}
	if t.Next(3) != 0 {
		e := GACE{Proto: "ip", Src: GAddr{Kind: "any"}, Dst: GAddr{Kind: "any"}}
		if !seen[e.key()] {
			a.Lines = append(a.Lines, e)
		}
	}
	if len(a.Lines) == 0 || allRemarks(a.Lines) {
		a.Lines = append(a.Lines, GACE{Permit: true, Proto: "ip", Src: GAddr{Kind: "host", Val: hosts[0]}, Dst: GAddr{Kind: "any"}})
	}
	return a
}

func allRemarks(l []GACE) bool {
	for _, e := range l {
		if e.Remark == "" {
			return false
		}
	}
	return true
}

var asaIfNames = []string{"inside", "outside", "dmz"}
var iosIfNames = []string{"GigabitEthernet0/0", "GigabitEthernet0/1", "Serial1", "Vlan10"}

// GenTarget draws the effective target B.
func GenTarget(t *tape.Tape, k Knobs) *GConf {
	g := &GConf{Kind: k.Kind}
	nIf := 1 + t.Next(k.MaxIfaces)
	for i := 0; i < nIf; i++ {
		if k.Kind == "ASA" {
			g.Ifaces = append(g.Ifaces, GIface{HW: fmt.Sprintf("Ethernet0/%d", i), Name: asaIfNames[i]})
		} else {
			g.Ifaces = append(g.Ifaces, GIface{HW: iosIfNames[i], Addr: fmt.Sprintf("10.%d.0.1 255.255.255.0", 9+i)})
		}
	}
	for i := 0; i < k.MaxGroups; i++ {
		gr := GGroup{Name: fmt.Sprintf("g%d", i)}
		n := 1 + t.Next(4)
		seen := map[string]bool{}
		for j := 0; j < n; j++ {
			var m GAddr
			if t.Next(2) == 0 {
				m = GAddr{Kind: "host", Val: tape.Pick(t, hosts)}
			} else {
				x := tape.Pick(t, nets)
				m = GAddr{Kind: "net", Val: x.IP, Bits: x.Bits}
			}
			if !seen[m.render("ASA")] {
				seen[m.render("ASA")] = true
				gr.Members = append(gr.Members, m)
			}
		}
		g.Groups = append(g.Groups, gr)
	}
	for i, intf := range g.Ifaces {
		ifName := intf.Name
		if k.Kind == "IOS" {
			ifName = intf.HW
		}
		if t.Next(8) != 0 {
			name := fmt.Sprintf("%s_in", strings.ReplaceAll(ifName, "/", "_"))
			g.ACLs = append(g.ACLs, genACL(t, k, name, g.Groups))
			g.Binds = append(g.Binds, GBind{Iface: ifName, Dir: "in", ACL: name})
		}
		if t.Next(4) == 0 {
			name := fmt.Sprintf("%s_out", strings.ReplaceAll(ifName, "/", "_"))
			g.ACLs = append(g.ACLs, genACL(t, k, name, g.Groups))
			g.Binds = append(g.Binds, GBind{Iface: ifName, Dir: "out", ACL: name})
		}
		_ = i
	}
	// Sometimes two groups of the target differ in one member only.
	if len(g.Groups) >= 1 && t.Chance(1, 3) && len(g.ACLs) > 0 {
		src := g.Groups[t.Next(len(g.Groups))]
		cp := GGroup{Name: fmt.Sprintf("g%d", len(g.Groups)+3), Members: append([]GAddr(nil), src.Members...)}
		if t.Next(2) == 0 && len(cp.Members) > 1 {
			cp.Members = cp.Members[1:]
		} else {
			m := GAddr{Kind: "host", Val: tape.Pick(t, hosts)}
			dup := false
			for _, x := range cp.Members {
				if x == m {
					dup = true
				}
			}
			if !dup {
				cp.Members = append(cp.Members, m)
			}
		}
		g.Groups = append(g.Groups, cp)
		// Make sure both are used.
		acl := &g.ACLs[t.Next(len(g.ACLs))]
		for _, name := range []string{src.Name, cp.Name} {
			e := GACE{Permit: true, Proto: "tcp", Src: GAddr{Kind: "group", Val: name}, Dst: genAddr(t, nil), Port: tape.Pick(t, ports)}
			if !hasDup(acl.Lines, e, -1) {
				j := t.Next(len(acl.Lines))
				acl.Lines = append(acl.Lines[:j:j], append([]GACE{e}, acl.Lines[j:]...)...)
			}
		}
	}
	if k.Crypto {
		genCrypto(t, k, g)
	}
	// Only groups that are referenced belong to the target.
	g.pruneGroups()
	seen := map[string]bool{}
	for i := 0; i < k.MaxRoutes; i++ {
		x := tape.Pick(t, nets)
		r := GRoute{Dst: x.IP, Bits: x.Bits, Hop: fmt.Sprintf("10.9.0.%d", 2+t.Next(4))}
		if t.Next(5) == 0 {
			r.Dst, r.Bits = "0.0.0.0", 0
		}
		if k.Kind == "ASA" {
			r.Iface = g.Ifaces[t.Next(len(g.Ifaces))].Name
		}
		key := fmt.Sprintf("%s/%d", r.Dst, r.Bits)
		if seen[key] {
			continue
		}
		seen[key] = true
		g.Routes = append(g.Routes, r)
	}
	// IOS: a second, equal-cost route to one of the destinations.
	if k.Kind == "IOS" && len(g.Routes) > 0 && t.Next(6) == 0 {
		r := g.Routes[t.Next(len(g.Routes))]
		r.Hop = "10.9.0.9"
		g.Routes = append(g.Routes, r)
	}
	return g
}

func (g *GConf) pruneGroups() {
	used := map[string]bool{}
	for _, a := range g.ACLs {
		for _, e := range a.Lines {
			if e.Src.Kind == "group" {
				used[e.Src.Val] = true
			}
			if e.Dst.Kind == "group" {
				used[e.Dst.Val] = true
			}
		}
	}
	var keep []GGroup
	for _, gr := range g.Groups {
		if used[gr.Name] {
			keep = append(keep, gr)
		}
	}
	g.Groups = keep
}

func (g *GConf) clone() *GConf {
	n := &GConf{Kind: g.Kind}
	n.Ifaces = append(n.Ifaces, g.Ifaces...)
	for _, gr := range g.Groups {
		n.Groups = append(n.Groups, GGroup{gr.Name, append([]GAddr(nil), gr.Members...)})
	}
	for _, a := range g.ACLs {
		n.ACLs = append(n.ACLs, GACL{a.Name, append([]GACE(nil), a.Lines...)})
	}
	n.Binds = append(n.Binds, g.Binds...)
	n.Routes = append(n.Routes, g.Routes...)
	n.Trans = append(n.Trans, g.Trans...)
	for _, c := range g.Crypto {
		n.Crypto = append(n.Crypto, GCrypto{c.Map, c.Iface, append([]GCEntry(nil), c.Entries...)})
	}
	return n
}

func (g *GConf) acl(name string) *GACL {
	for i := range g.ACLs {
		if g.ACLs[i].Name == name {
			return &g.ACLs[i]
		}
	}
	return nil
}

func (g *GConf) renameGroup(old, new string) {
	for i := range g.Groups {
		if g.Groups[i].Name == old {
			g.Groups[i].Name = new
		}
	}
	for i := range g.ACLs {
		for j := range g.ACLs[i].Lines {
			e := &g.ACLs[i].Lines[j]
			if e.Src.Kind == "group" && e.Src.Val == old {
				e.Src.Val = new
			}
			if e.Dst.Kind == "group" && e.Dst.Val == old {
				e.Dst.Val = new
			}
		}
	}
}

func (g *GConf) renameACL(old, new string) {
	for i := range g.ACLs {
		if g.ACLs[i].Name == old {
			g.ACLs[i].Name = new
		}
	}
	for i := range g.Binds {
		if g.Binds[i].ACL == old {
			g.Binds[i].ACL = new
		}
	}
	for i := range g.Crypto {
		for j := range g.Crypto[i].Entries {
			if g.Crypto[i].Entries[j].ACL == old {
				g.Crypto[i].Entries[j].ACL = new
			}
		}
	}
}

func hasDup(lines []GACE, e GACE, except int) bool {
	for i, x := range lines {
		if i != except && x.Remark == "" && e.Remark == "" && x.key() == e.key() {
			return true
		}
	}
	return false
}

// DeriveDevice derives the device state A from the target by edit operators.
// The result uses device-style names (NAME-DRC-n).
func DeriveDevice(t *tape.Tape, k Knobs, b *GConf) (*GConf, []string) {
	a := b.clone()
	var ops []string
	// Device names carry the tag of an earlier run.
	if t.Next(6) != 0 {
		for _, gr := range b.Groups {
			a.renameGroup(gr.Name, fmt.Sprintf("%s-DRC-%d", gr.Name, t.Next(2)))
		}
		for _, acl := range b.ACLs {
			a.renameACL(acl.Name, fmt.Sprintf("%s-DRC-%d", acl.Name, t.Next(2)))
		}
	}
	ops = append(ops, cryptoEdits(t, k, a)...)
	// The device uses one group where the target has two (similar) groups.
	if len(a.Groups) >= 2 && t.Chance(1, 4) {
		i := t.Next(len(a.Groups))
		j := (i + 1 + t.Next(len(a.Groups)-1)) % len(a.Groups)
		keep, drop := a.Groups[i].Name, a.Groups[j].Name
		a.renameGroup(drop, keep)
		var gl []GGroup
		seen := false
		for _, gr := range a.Groups {
			if gr.Name == keep {
				if seen {
					continue
				}
				seen = true
			}
			gl = append(gl, gr)
		}
		a.Groups = gl
		// Renaming may have produced duplicate lines.
		for ai := range a.ACLs {
			var l []GACE
			for _, e := range a.ACLs[ai].Lines {
				if !hasDup(l, e, -1) {
					l = append(l, e)
				}
			}
			a.ACLs[ai].Lines = l
		}
		ops = append(ops, "device uses group "+keep+" where the target has two groups")
	}
	nEdits := t.Next(k.MaxEdits + 1)
	for i := 0; i < nEdits; i++ {
		op := t.Next(18)
		switch {
		case op <= 6 && len(a.ACLs) > 0 && k.Shaped: // shape-preserving line edits
			acl := &a.ACLs[t.Next(len(a.ACLs))]
			lo, hi := permitBlock(acl.Lines)
			switch op {
			case 0:
				if t.Next(4) == 0 && lo > 0 && hi-lo > 2 {
					// A run across the border of deny block and permit block:
					// the target inserts a hunk of mixed actions.
					from := lo - 1 - t.Next(min(lo, 2))
					to := lo + 1 + t.Next(min(hi-lo-1, 2))
					acl.Lines = append(acl.Lines[:from:from], acl.Lines[to:]...)
					ops = append(ops, fmt.Sprintf("del run %d..%d across the deny/permit border of %s", from, to-1, acl.Name))
				} else if hi-lo > 1 {
					j := lo + t.Next(hi-lo)
					acl.Lines = append(acl.Lines[:j:j], acl.Lines[j+1:]...)
					ops = append(ops, fmt.Sprintf("del permit %d of %s", j, acl.Name))
				}
			case 1, 2:
				e := genACE(t, k, a.Groups)
				e.Permit = true
				if !hasDup(acl.Lines, e, -1) {
					j := lo + t.Next(hi-lo+1)
					acl.Lines = append(acl.Lines[:j:j], append([]GACE{e}, acl.Lines[j:]...)...)
					ops = append(ops, fmt.Sprintf("ins permit %d of %s", j, acl.Name))
				}
			case 3, 4:
				if hi-lo > 1 {
					j := lo + t.Next(hi-lo)
					e := acl.Lines[j]
					rest := append(acl.Lines[:j:j], acl.Lines[j+1:]...)
					p := lo + t.Next(hi-lo)
					acl.Lines = append(rest[:p:p], append([]GACE{e}, rest[p:]...)...)
					ops = append(ops, fmt.Sprintf("move permit %d->%d of %s", j, p, acl.Name))
				}
			case 5:
				j := t.Next(len(acl.Lines))
				if k.Kind == "ASA" {
					acl.Lines[j].Log = []string{"", "log", "log 4"}[t.Next(3)]
				} else {
					acl.Lines[j].Log = []string{"", "log", "log-input"}[t.Next(3)]
				}
				ops = append(ops, fmt.Sprintf("log of line %d of %s", j, acl.Name))
			case 6: // deny block: add or remove a host deny in front
				if lo > 0 && t.Next(2) == 0 {
					j := t.Next(lo)
					acl.Lines = append(acl.Lines[:j:j], acl.Lines[j+1:]...)
					ops = append(ops, "del deny of "+acl.Name)
				} else {
					e := GACE{Proto: "ip", Src: GAddr{Kind: "any"}, Dst: GAddr{Kind: "host", Val: tape.Pick(t, hosts)}}
					if !hasDup(acl.Lines, e, -1) {
						j := t.Next(lo + 1)
						acl.Lines = append(acl.Lines[:j:j], append([]GACE{e}, acl.Lines[j:]...)...)
						ops = append(ops, "ins deny of "+acl.Name)
					}
				}
			}
		case op <= 6 && len(a.ACLs) > 0: // line edits
			acl := &a.ACLs[t.Next(len(a.ACLs))]
			switch op {
			case 0: // delete a line, or a run of lines (the target then inserts a hunk)
				if len(acl.Lines) > 1 {
					j := t.Next(len(acl.Lines))
					n := 1
					if t.Next(3) == 0 {
						n = 2 + t.Next(3)
					}
					if j+n > len(acl.Lines) {
						n = len(acl.Lines) - j
					}
					if n == len(acl.Lines) {
						n--
					}
					acl.Lines = append(acl.Lines[:j:j], acl.Lines[j+n:]...)
					if !allRemarks(acl.Lines) {
						ops = append(ops, fmt.Sprintf("del line %d of %s", j, acl.Name))
					} else {
						acl.Lines = append(acl.Lines, GACE{Permit: true, Proto: "ip", Src: GAddr{Kind: "any"}, Dst: GAddr{Kind: "host", Val: hosts[1]}})
					}
				}
			case 1, 2: // insert a new line
				e := genACE(t, k, a.Groups)
				if !hasDup(acl.Lines, e, -1) {
					j := t.Next(len(acl.Lines) + 1)
					acl.Lines = append(acl.Lines[:j:j], append([]GACE{e}, acl.Lines[j:]...)...)
					ops = append(ops, fmt.Sprintf("ins line %d of %s", j, acl.Name))
				}
			case 3: // move a line
				if len(acl.Lines) > 1 {
					j := t.Next(len(acl.Lines))
					e := acl.Lines[j]
					rest := append(acl.Lines[:j:j], acl.Lines[j+1:]...)
					p := t.Next(len(rest) + 1)
					acl.Lines = append(rest[:p:p], append([]GACE{e}, rest[p:]...)...)
					ops = append(ops, fmt.Sprintf("move line %d->%d of %s", j, p, acl.Name))
				}
			case 4: // swap adjacent
				if len(acl.Lines) > 1 {
					j := t.Next(len(acl.Lines) - 1)
					acl.Lines[j], acl.Lines[j+1] = acl.Lines[j+1], acl.Lines[j]
					ops = append(ops, fmt.Sprintf("swap %d,%d of %s", j, j+1, acl.Name))
				}
			case 5: // change log option
				j := t.Next(len(acl.Lines))
				if acl.Lines[j].Remark == "" {
					if k.Kind == "ASA" {
						acl.Lines[j].Log = []string{"", "log", "log 4", "log 7 interval 10"}[t.Next(4)]
					} else {
						acl.Lines[j].Log = []string{"", "log", "log-input"}[t.Next(3)]
					}
					ops = append(ops, fmt.Sprintf("log of line %d of %s", j, acl.Name))
				}
			case 6: // flip action
				j := t.Next(len(acl.Lines))
				if acl.Lines[j].Remark == "" {
					e := acl.Lines[j]
					e.Permit = !e.Permit
					// A device cannot hold two entries that differ only in the log option.
					if !hasDup(acl.Lines, e, j) {
						acl.Lines[j] = e
						ops = append(ops, fmt.Sprintf("flip line %d of %s", j, acl.Name))
					}
				}
			}
		case op >= 16 && len(a.ACLs) > 0 && !k.Shaped:
			// A line of the target is missing on the device and a line of the
			// opposite action lies on the other side of that position: the
			// tool has to insert one and move the other across it.
			acl := &a.ACLs[t.Next(len(a.ACLs))]
			if t.Next(2) == 0 {
				// target: A(x) B(x) C(!x) E(x)  ->  device: E A   (B, C missing, E in A's block)
				var at []int
				for i := 0; i+3 < len(acl.Lines); i++ {
					l := acl.Lines[i : i+4]
					if l[0].Remark == "" && l[1].Remark == "" && l[2].Remark == "" && l[3].Remark == "" &&
						l[0].Permit == l[1].Permit && l[1].Permit != l[2].Permit && l[3].Permit == l[0].Permit {
						at = append(at, i)
					}
				}
				// target: X(!x) P(x) Y(!x) A(x)  ->  device: A P   (X, Y missing, P below in A's block)
				var at2 []int
				for i := 0; i+3 < len(acl.Lines); i++ {
					l := acl.Lines[i : i+4]
					if l[0].Remark == "" && l[1].Remark == "" && l[2].Remark == "" && l[3].Remark == "" &&
						l[1].Permit == l[3].Permit && l[0].Permit != l[1].Permit && l[2].Permit != l[1].Permit {
						at2 = append(at2, i)
					}
				}
				// Prefer windows where the moved line and the missing line
				// behind it match a common packet of the universe.
				var at2o []int
				for _, i := range at2 {
					if acesOverlap(a, acl.Lines[i+1], acl.Lines[i+2]) {
						at2o = append(at2o, i)
					}
				}
				if len(at2o) > 0 {
					at2 = at2o
				}
				if len(at2) > 0 && (len(at) == 0 || t.Next(2) == 0) {
					i := at2[t.Next(len(at2))]
					var l []GACE
					l = append(l, acl.Lines[:i]...)
					l = append(l, acl.Lines[i+3], acl.Lines[i+1])
					l = append(l, acl.Lines[i+4:]...)
					if t.Next(2) == 0 {
						w := acl.Lines[i+2]
						w.Log = ""
						if w.Dst.Kind != "any" {
							w.Dst = GAddr{Kind: "any"}
						} else {
							w.Src = GAddr{Kind: "any"}
						}
						if !hasDup(l, w, -1) && !hasDup(acl.Lines, w, -1) {
							l = append([]GACE{w}, l...)
						}
					}
					acl.Lines = l
					ops = append(ops, fmt.Sprintf("lines %d,%d of %s missing, line %d sits in the block below them", i, i+2, acl.Name, i+1))
					break
				}
				if len(at) > 0 {
					i := at[t.Next(len(at))]
					e, first := acl.Lines[i+3], acl.Lines[i]
					var l []GACE
					l = append(l, acl.Lines[:i]...)
					if t.Next(2) == 0 {
						l = append(l, e, first)
					} else {
						l = append(l, first, e)
					}
					l = append(l, acl.Lines[i+4:]...)
					// Instead of C the device may have a wider line of C's action
					// on top, so that old and new verdict agree where C and E overlap.
					if t.Next(2) == 0 {
						w := acl.Lines[i+2]
						w.Log = ""
						if w.Dst.Kind != "any" {
							w.Dst = GAddr{Kind: "any"}
						} else {
							w.Src = GAddr{Kind: "any"}
						}
						if !hasDup(l, w, -1) && !hasDup(acl.Lines, w, -1) {
							l = append([]GACE{w}, l...)
						}
					}
					acl.Lines = l
					ops = append(ops, fmt.Sprintf("lines %d,%d of %s missing, line %d sits in the block above them", i+1, i+2, acl.Name, i+3))
				}
				break
			}
			var cand [][2]int
			for i, d := range acl.Lines {
				for j, m := range acl.Lines {
					if i != j && d.Remark == "" && m.Remark == "" && d.Permit != m.Permit {
						cand = append(cand, [2]int{i, j})
					}
				}
			}
			if len(cand) > 0 && len(acl.Lines) > 2 {
				x := cand[t.Next(len(cand))]
				i, j := x[0], x[1]
				mv := acl.Lines[j]
				// Often a second line of the missing line's action is missing,
				// too, so that one block is split more than once.
				i2 := -1
				if t.Next(2) == 0 {
					var more []int
					for n, e := range acl.Lines {
						if n != i && n != j && e.Remark == "" && e.Permit == acl.Lines[i].Permit {
							more = append(more, n)
						}
					}
					if len(more) > 0 && len(acl.Lines) > 3 {
						i2 = more[t.Next(len(more))]
					}
				}
				var l []GACE
				pos := 0 // where the missing line was, seen in the list without the removed ones
				for n, e := range acl.Lines {
					if n == i || n == j || n == i2 {
						continue
					}
					if n < i {
						pos++
					}
					l = append(l, e)
				}
				if j > i {
					// moved line was below: put it somewhere above
					pos = t.Next(pos + 1)
				} else {
					// moved line was above: put it somewhere below
					pos = pos + t.Next(len(l)-pos+1)
				}
				acl.Lines = append(l[:pos:pos], append([]GACE{mv}, l[pos:]...)...)
				ops = append(ops, fmt.Sprintf("line %d of %s missing and line %d on the other side of it", i, acl.Name, j))
			}
		case op == 7 && len(a.Groups) > 0: // group member add / remove
			gr := &a.Groups[t.Next(len(a.Groups))]
			if t.Next(2) == 0 && len(gr.Members) > 1 {
				j := t.Next(len(gr.Members))
				gr.Members = append(gr.Members[:j:j], gr.Members[j+1:]...)
				ops = append(ops, "remove member of "+gr.Name)
			} else {
				m := GAddr{Kind: "host", Val: tape.Pick(t, hosts)}
				dup := false
				for _, x := range gr.Members {
					if x == m {
						dup = true
					}
				}
				if !dup {
					gr.Members = append(gr.Members, m)
					ops = append(ops, "add member to "+gr.Name)
				}
			}
		case op == 8 && len(a.Groups) > 0: // duplicate a group under another name (left-over)
			gr := a.Groups[t.Next(len(a.Groups))]
			base, _, _ := strings.Cut(gr.Name, "-DRC-")
			name := fmt.Sprintf("%s-DRC-%d", base, 2+t.Next(3))
			exists := false
			for _, x := range a.Groups {
				if x.Name == name {
					exists = true
				}
			}
			if !exists {
				a.Groups = append(a.Groups, GGroup{name, append([]GAddr(nil), gr.Members...)})
				ops = append(ops, "duplicate group "+gr.Name+" as "+name)
			}
		case op == 9 && len(a.Groups) > 0: // split: one reference uses an identical copy
			gr := a.Groups[t.Next(len(a.Groups))]
			base, _, _ := strings.Cut(gr.Name, "-DRC-")
			name := fmt.Sprintf("%s-DRC-%d", base, 5+t.Next(3))
			exists := false
			for _, x := range a.Groups {
				if x.Name == name {
					exists = true
				}
			}
			if exists {
				break
			}
			done := false
			for i := range a.ACLs {
				for j := range a.ACLs[i].Lines {
					e := &a.ACLs[i].Lines[j]
					if !done && e.Src.Kind == "group" && e.Src.Val == gr.Name {
						e.Src.Val = name
						done = true
					} else if !done && e.Dst.Kind == "group" && e.Dst.Val == gr.Name && t.Next(2) == 0 {
						e.Dst.Val = name
						done = true
					}
				}
			}
			if done {
				a.Groups = append(a.Groups, GGroup{name, append([]GAddr(nil), gr.Members...)})
				ops = append(ops, "split group "+gr.Name+" -> "+name)
			}
		case op == 10 && len(a.Routes) > 0: // change hop
			j := t.Next(len(a.Routes))
			a.Routes[j].Hop = fmt.Sprintf("10.9.0.%d", 6+t.Next(3))
			ops = append(ops, "change hop of route "+a.Routes[j].Dst)
		case op == 11 && len(a.Routes) > 0: // remove route
			j := t.Next(len(a.Routes))
			a.Routes = append(a.Routes[:j:j], a.Routes[j+1:]...)
			ops = append(ops, "remove route")
		case op == 12: // extra route on device
			x := tape.Pick(t, nets)
			r := GRoute{Dst: x.IP, Bits: x.Bits, Hop: fmt.Sprintf("10.9.0.%d", 2+t.Next(4))}
			if t.Next(4) == 0 {
				r.Dst, r.Bits = "0.0.0.0", 0
			}
			if k.Kind == "ASA" {
				r.Iface = a.Ifaces[t.Next(len(a.Ifaces))].Name
			}
			dup := false
			for _, y := range a.Routes {
				if y.Dst == r.Dst && y.Bits == r.Bits {
					dup = true
				}
			}
			if !dup {
				a.Routes = append(a.Routes, r)
				ops = append(ops, "extra route "+r.Dst)
			}
		case op == 13 && len(a.Binds) > 0: // ACL not bound on device
			j := t.Next(len(a.Binds))
			name := a.Binds[j].ACL
			a.Binds = append(a.Binds[:j:j], a.Binds[j+1:]...)
			// The ACL itself may stay as left-over or be absent.
			if t.Next(2) == 0 {
				for i := range a.ACLs {
					if a.ACLs[i].Name == name {
						a.ACLs = append(a.ACLs[:i:i], a.ACLs[i+1:]...)
						break
					}
				}
			}
			ops = append(ops, "unbind "+name)
		case op == 14 && len(a.ACLs) > 0 && !k.Shaped: // completely different ACL content
			acl := &a.ACLs[t.Next(len(a.ACLs))]
			*acl = genACL(t, k, acl.Name, a.Groups)
			ops = append(ops, "replace content of "+acl.Name)
		case op == 15 && len(a.ACLs) > 1 && !k.NoShare: // two interfaces share one ACL on the device
			if len(a.Binds) > 1 {
				a.Binds[1].ACL = a.Binds[0].ACL
				ops = append(ops, "share ACL "+a.Binds[0].ACL)
			}
		}
	}
	return a, ops
}

func mustAddr(s string) netip.Addr { return netip.MustParseAddr(s) }

// ToConf renders an abstract configuration as node state.  asDevice adds what
// only a device has (interface definitions, hostname).
func (g *GConf) ToConf(asDevice bool) *cisco.Conf {
	c := &cisco.Conf{Kind: g.Kind}
	if asDevice {
		c.Hostname = "router"
	}
	for _, i := range g.Ifaces {
		if g.Kind == "ASA" {
			if !asDevice {
				continue
			}
			o := &cisco.Obj{Head: "interface " + i.HW, Mode: true}
			if i.Name != "" {
				o.Subs = append(o.Subs, "nameif "+i.Name)
			}
			if i.Shut {
				o.Subs = append(o.Subs, "shutdown")
			}
			o.Subs = append(o.Subs, i.Extras...)
			c.Objs = append(c.Objs, o)
			continue
		}
		o := &cisco.Obj{Head: "interface " + i.HW, Mode: true}
		if i.VRF != "" {
			o.Subs = append(o.Subs, "vrf forwarding "+i.VRF)
		}
		if i.Addr != "" {
			o.Subs = append(o.Subs, "ip address "+i.Addr)
		}
		if i.Shut {
			o.Subs = append(o.Subs, "shutdown")
		}
		for _, b := range g.Binds {
			if b.Iface == i.HW {
				o.Subs = append(o.Subs, "ip access-group "+b.ACL+" "+b.Dir)
			}
		}
		for _, c := range g.Crypto {
			if c.Iface == i.HW && len(c.Entries) > 0 {
				o.Subs = append(o.Subs, "crypto map "+c.Map)
			}
		}
		o.Subs = append(o.Subs, i.Extras...)
		c.Objs = append(c.Objs, o)
	}
	for _, gr := range g.Groups {
		o := &cisco.Obj{Head: "object-group network " + gr.Name, Mode: true}
		for _, m := range gr.Members {
			if m.Kind == "host" {
				o.Subs = append(o.Subs, "network-object host "+m.Val)
			} else if m.Kind == "groupobj" {
				o.Subs = append(o.Subs, "group-object "+m.Val)
			} else {
				o.Subs = append(o.Subs, "network-object "+m.Val+" "+maskOf(m.Bits, false))
			}
		}
		c.Objs = append(c.Objs, o)
	}
	for _, a := range g.ACLs {
		acl := &cisco.ACL{Name: a.Name}
		for i, e := range a.Lines {
			acl.Entries = append(acl.Entries, &cisco.ACE{Seq: 10 * (i + 1), Text: e.Render(g.Kind)})
		}
		c.ACLs = append(c.ACLs, acl)
	}
	if g.Kind == "ASA" {
		for _, b := range g.Binds {
			c.Objs = append(c.Objs, &cisco.Obj{Head: fmt.Sprintf("access-group %s %s interface %s", b.ACL, b.Dir, b.Iface)})
		}
	}
	for _, r := range g.Routes {
		if g.Kind == "ASA" {
			c.Objs = append(c.Objs, &cisco.Obj{Head: fmt.Sprintf("route %s %s %s %s", r.Iface, r.Dst, maskOf(r.Bits, false), r.Hop)})
		} else if r.VRF != "" {
			c.Objs = append(c.Objs, &cisco.Obj{Head: fmt.Sprintf("ip route vrf %s %s %s %s", r.VRF, r.Dst, maskOf(r.Bits, false), r.Hop)})
		} else {
			c.Objs = append(c.Objs, &cisco.Obj{Head: fmt.Sprintf("ip route %s %s %s", r.Dst, maskOf(r.Bits, false), r.Hop)})
		}
	}
	if g.Kind == "IOS" {
		// crypto maps are printed first by IOS; keep them in front.
		c.Objs = append(g.cryptoObjs(), c.Objs...)
	} else {
		c.Objs = append(c.Objs, g.cryptoObjs()...)
	}
	c.Objs = append(c.Objs, g.Clutter...)
	return c
}

// AddClutter puts unmanaged content on the device: an interface unknown to
// the target with its own ACL and group, untagged unused objects, unmodelled
// lines.
func AddClutter(t *tape.Tape, a *GConf) []string {
	var what []string
	if a.Kind == "ASA" {
		if t.Next(2) == 0 {
			a.Ifaces = append(a.Ifaces, GIface{HW: "Management0/0", Name: "mgmt", Shut: t.Next(2) == 0})
			if t.Next(3) != 0 {
				name := "mgmt_acl"
				if t.Next(2) == 0 {
					name = "mgmt_in-DRC-0" // looks generated but is bound to an unmanaged interface
				}
				acl := GACL{Name: name, Lines: []GACE{
					{Permit: true, Proto: "tcp", Src: GAddr{Kind: "host", Val: "10.99.0.1"}, Dst: GAddr{Kind: "any"}, Port: "eq 22"}}}
				if t.Next(2) == 0 {
					gname := "mgmt_hosts"
					if t.Next(2) == 0 {
						gname = "mg-DRC-0"
					}
					a.Groups = append(a.Groups, GGroup{gname, []GAddr{{Kind: "host", Val: "10.99.0.7"}}})
					acl.Lines = append(acl.Lines, GACE{Permit: true, Proto: "ip", Src: GAddr{Kind: "group", Val: gname}, Dst: GAddr{Kind: "any"}})
				}
				a.ACLs = append(a.ACLs, acl)
				a.Binds = append(a.Binds, GBind{Iface: "mgmt", Dir: "in", ACL: name})
				what = append(what, "unmanaged interface mgmt with ACL "+name)
			}
		}
		if t.Next(2) == 0 {
			a.Groups = append(a.Groups, GGroup{"manual_group", []GAddr{{Kind: "host", Val: "10.77.0.1"}}})
			what = append(what, "unused untagged group")
		}
		if t.Next(2) == 0 {
			acl := GACL{Name: "manual_acl", Lines: []GACE{
				{Permit: true, Proto: "ip", Src: GAddr{Kind: "host", Val: "10.77.0.2"}, Dst: GAddr{Kind: "any"}}}}
			what = append(what, "unused untagged ACL")
			if t.Next(2) == 0 {
				// Chain: manually configured group-policy -> generated-looking
				// filter ACL -> generated-looking group.
				a.Groups = append(a.Groups, GGroup{"mfg-DRC-0", []GAddr{{Kind: "host", Val: "10.77.0.9"}}})
				a.ACLs = append(a.ACLs, GACL{Name: "mfilter-DRC-0", Lines: []GACE{
					{Permit: true, Proto: "tcp", Src: GAddr{Kind: "host", Val: "10.77.0.3"}, Dst: GAddr{Kind: "any"}, Port: "eq 22"},
					{Permit: true, Proto: "ip", Src: GAddr{Kind: "group", Val: "mfg-DRC-0"}, Dst: GAddr{Kind: "any"}}}})
				a.Clutter = append(a.Clutter,
					&cisco.Obj{Head: "group-policy MANUAL internal"},
					&cisco.Obj{Head: "group-policy MANUAL attributes", Mode: true,
						Subs: []string{"vpn-filter value mfilter-DRC-0", "vpn-idle-timeout 30"}})
				what = append(what, "manual group-policy -> tagged filter ACL -> tagged group")
			}
			a.ACLs = append(a.ACLs, acl)
		}
		if t.Next(4) == 0 {
			// A manually configured group nests a generated-looking group;
			// an untagged ACL bound nowhere uses the outer one.
			a.Groups = append(a.Groups, GGroup{"nested-DRC-0", []GAddr{{Kind: "host", Val: "10.77.0.11"}}},
				GGroup{"manual_outer", []GAddr{{Kind: "host", Val: "10.77.0.12"}, {Kind: "groupobj", Val: "nested-DRC-0"}}})
			a.ACLs = append(a.ACLs, GACL{Name: "manual_nest_acl", Lines: []GACE{
				{Permit: true, Proto: "ip", Src: GAddr{Kind: "group", Val: "manual_outer"}, Dst: GAddr{Kind: "any"}}}})
			what = append(what, "manual group nesting a tagged group (group-object)")
		}
		if t.Next(2) == 0 {
			a.Clutter = append(a.Clutter,
				&cisco.Obj{Head: "snmp-server host inside 10.9.9.9 community xyz", Opaque: true},
				&cisco.Obj{Head: "aaa-server LDAPX protocol ldap"},
				&cisco.Obj{Head: "aaa-server LDAPX (inside) host 10.9.9.8", Mode: true, Subs: []string{"ldap-base-dn dc=example"}},
				&cisco.Obj{Head: "policy-map global_policy", Opaque: true, Subs: []string{"class inspection_default", " inspect dns"}},
			)
			what = append(what, "unmodelled lines and aaa-server")
		}
	} else {
		if t.Next(2) == 0 {
			i := GIface{HW: "Loopback7", VRF: "", Addr: "10.77.7.7 255.255.255.255"}
			if t.Next(2) == 0 {
				i.VRF = "mgmtvrf"
			}
			a.Ifaces = append(a.Ifaces, i)
			if t.Next(3) != 0 {
				name := "lo7_acl"
				if t.Next(2) == 0 {
					name = "Loopback7_in-DRC-0"
				}
				a.ACLs = append(a.ACLs, GACL{Name: name, Lines: []GACE{
					{Permit: true, Proto: "tcp", Src: GAddr{Kind: "host", Val: "10.99.0.1"}, Dst: GAddr{Kind: "any"}, Port: "eq 22"}}})
				a.Binds = append(a.Binds, GBind{Iface: "Loopback7", Dir: "in", ACL: name})
			}
			what = append(what, "interface unknown to the target: Loopback7 vrf="+i.VRF)
		}
		if t.Next(2) == 0 {
			a.ACLs = append(a.ACLs, GACL{Name: "manual_acl", Lines: []GACE{
				{Permit: true, Proto: "ip", Src: GAddr{Kind: "host", Val: "10.77.0.2"}, Dst: GAddr{Kind: "any"}}}})
			what = append(what, "unused untagged ACL")
		}
		if t.Next(3) == 0 {
			// An IPv6 ACL (unknown to the tool) printed directly behind the
			// IPv4 ACLs; its lines look like IPv4 ACL lines.
			a.Clutter = append(a.Clutter, &cisco.Obj{Head: "ipv6 access-list mgmt6", Opaque: true,
				Subs: []string{"permit tcp any any eq 22", "permit udp any any eq 53", "deny ipv6 any any"}})
			what = append(what, "ipv6 access-list behind the IPv4 ACLs")
		}
		if t.Next(12) == 0 {
			// A dangling reference: the tool cannot parse this configuration.
			a.Clutter = append(a.Clutter, &cisco.Obj{Head: "interface Tunnel9", Mode: true,
				Subs: []string{"ip address 10.88.0.1 255.255.255.252", "crypto map MISSING"}})
			what = append(what, "interface with a crypto map that is not defined (unparsable for the tool)")
		}
		if t.Next(2) == 0 {
			a.Routes = append(a.Routes, GRoute{VRF: "othervrf", Dst: "10.55.0.0", Bits: 16, Hop: "10.9.0.9"})
			what = append(what, "route in a VRF unknown to the target")
		}
		if t.Next(2) == 0 {
			a.Clutter = append(a.Clutter,
				&cisco.Obj{Head: "snmp-server community xyz RO", Opaque: true},
				&cisco.Obj{Head: "router ospf 1", Opaque: true, Subs: []string{"network 10.0.0.0 0.255.255.255 area 0"}},
			)
			what = append(what, "unmodelled lines")
		}
	}
	return what
}

// permitBlock returns the index range [lo,hi) of the permit lines of a shaped ACL.
func permitBlock(l []GACE) (int, int) {
	lo := 0
	for lo < len(l) && !l[lo].Permit {
		lo++
	}
	hi := lo
	for hi < len(l) && l[hi].Permit {
		hi++
	}
	return lo, hi
}

var peers = []string{"193.1.1.1", "193.1.1.2", "193.1.1.3", "193.1.1.4", "193.1.1.5"}
var transSpecs = []string{"esp-aes-256 esp-sha-hmac", "esp-3des esp-md5-hmac", "esp-aes esp-sha-hmac"}

func genCrypto(t *tape.Tape, k Knobs, g *GConf) {
	intf := g.Ifaces[t.Next(len(g.Ifaces))]
	ifName := intf.Name
	if k.Kind == "IOS" {
		ifName = intf.HW
	}
	c := GCrypto{Map: "crypto-" + strings.ReplaceAll(ifName, "/", "_"), Iface: ifName}
	if k.Kind == "ASA" {
		for i, n := 0, 1+t.Next(2); i < n; i++ {
			if t.Next(3) == 0 {
				g.Trans = append(g.Trans, GTrans{Name: fmt.Sprintf("Prop%d", i+1), V2: []string{
					"protocol esp encryption " + []string{"aes-256", "aes-192 aes", "3des"}[t.Next(3)],
					"protocol esp integrity " + []string{"sha-1", "sha-256", "md5"}[t.Next(3)]}})
			} else {
				g.Trans = append(g.Trans, GTrans{Name: fmt.Sprintf("Trans%d", i+1), Spec: transSpecs[t.Next(len(transSpecs))]})
			}
		}
	}
	used := map[string]bool{}
	for i, n := 0, 1+t.Next(3); i < n; i++ {
		p := tape.Pick(t, peers)
		if used[p] {
			continue
		}
		used[p] = true
		e := GCEntry{Seq: len(c.Entries) + 1, Peer: p}
		aclName := fmt.Sprintf("crypto-%s", p)
		if k.Kind == "IOS" {
			aclName = fmt.Sprintf("crypto-filter-%s", p)
		}
		kk := k
		kk.MaxLines = 2
		acl := genACL(t, kk, aclName, nil)
		if k.Kind == "ASA" {
			// crypto ACLs hold permit lines only
			var l []GACE
			for _, x := range acl.Lines {
				if x.Remark == "" && x.Permit {
					l = append(l, x)
				}
			}
			if len(l) == 0 {
				l = []GACE{{Permit: true, Proto: "ip", Src: GAddr{Kind: "net", Val: "10.1.1.0", Bits: 24}, Dst: GAddr{Kind: "net", Val: "10.2.0.0", Bits: 24}}}
			}
			acl.Lines = l
			e.Trans = g.Trans[t.Next(len(g.Trans))].Name
			e.PFS = []string{"", "", "group2", "group5"}[t.Next(4)]
			e.Life = []string{"", "3600", "43200"}[t.Next(3)]
		}
		g.ACLs = append(g.ACLs, acl)
		e.ACL = aclName
		c.Entries = append(c.Entries, e)
	}
	g.Crypto = append(g.Crypto, c)
}

// cryptoEdits derives device-side differences of crypto maps.
func cryptoEdits(t *tape.Tape, k Knobs, a *GConf) []string {
	var ops []string
	for ci := range a.Crypto {
		c := &a.Crypto[ci]
		// Transform-sets carry the tag of an earlier run, or another name.
		if k.Kind == "ASA" && t.Next(2) == 0 {
			for i := range a.Trans {
				old := a.Trans[i].Name
				nn := fmt.Sprintf("%s-DRC-%d", old, t.Next(2))
				a.Trans[i].Name = nn
				for j := range c.Entries {
					if c.Entries[j].Trans == old {
						c.Entries[j].Trans = nn
					}
				}
			}
			ops = append(ops, "transform-sets tagged")
		}
		for n := t.Next(4); n > 0; n-- {
			switch t.Next(7) {
			case 0: // other sequence numbers on the device
				off := 1 + t.Next(5)
				for j := range c.Entries {
					c.Entries[j].Seq = c.Entries[j].Seq*2 + off
				}
				ops = append(ops, "crypto entries renumbered")
			case 1: // an entry is missing on the device
				if len(c.Entries) > 1 {
					j := t.Next(len(c.Entries))
					c.Entries = append(c.Entries[:j:j], c.Entries[j+1:]...)
					ops = append(ops, "crypto entry missing on device")
				}
			case 2: // an extra peer on the device
				p := tape.Pick(t, peers)
				dup := false
				for _, e := range c.Entries {
					if e.Peer == p {
						dup = true
					}
				}
				if !dup {
					e := GCEntry{Seq: 40 + t.Next(20), Peer: p}
					for _, x := range c.Entries {
						if x.Seq == e.Seq {
							e.Seq += 100
						}
					}
					name := "crypto-old-" + p
					a.ACLs = append(a.ACLs, GACL{Name: name, Lines: []GACE{{Permit: true, Proto: "ip", Src: GAddr{Kind: "host", Val: "10.1.1.1"}, Dst: GAddr{Kind: "any"}}}})
					e.ACL = name
					if k.Kind == "ASA" && len(a.Trans) > 0 {
						e.Trans = a.Trans[0].Name
					}
					c.Entries = append(c.Entries, e)
					ops = append(ops, "extra crypto peer on device")
				}
			case 3: // other transform-set on an entry
				if k.Kind == "ASA" && len(a.Trans) > 1 && len(c.Entries) > 0 {
					j := t.Next(len(c.Entries))
					c.Entries[j].Trans = a.Trans[t.Next(len(a.Trans))].Name
					ops = append(ops, "other transform-set on device")
				}
			case 4: // pfs / lifetime differ
				if k.Kind == "ASA" && len(c.Entries) > 0 {
					j := t.Next(len(c.Entries))
					c.Entries[j].PFS = []string{"", "group2", "group5"}[t.Next(3)]
					c.Entries[j].Life = []string{"", "3600", "86400"}[t.Next(3)]
					ops = append(ops, "pfs/lifetime differ")
				}
			case 5: // crypto map has another name on the device
				c.Map = "VPN"
				ops = append(ops, "crypto map named VPN on device")
			case 6: // transform-set spec differs
				if k.Kind == "ASA" && len(a.Trans) > 0 {
					tr := &a.Trans[t.Next(len(a.Trans))]
					if tr.V2 != nil {
						tr.V2 = []string{"protocol esp encryption " + []string{"aes-256", "aes", "des"}[t.Next(3)],
							"protocol esp integrity " + []string{"sha-1", "sha-512"}[t.Next(2)]}
						if t.Next(3) == 0 {
							tr.V2 = tr.V2[:1]
						}
					} else {
						tr.Spec = transSpecs[t.Next(len(transSpecs))]
					}
					ops = append(ops, "transform-set / proposal definition differs")
				}
				if k.Kind == "IOS" && len(c.Entries) > 0 {
					c.Entries[t.Next(len(c.Entries))].ACL = ""
					ops = append(ops, "crypto entry without filter on device")
				}
			}
		}
	}
	return ops
}

func (g *GConf) cryptoObjs() []*cisco.Obj {
	var l []*cisco.Obj
	if g.Kind == "ASA" {
		v2 := map[string]bool{}
		for _, tr := range g.Trans {
			if tr.V2 != nil {
				v2[tr.Name] = true
				l = append(l, &cisco.Obj{Head: "crypto ipsec ikev2 ipsec-proposal " + tr.Name, Mode: true,
					Subs: append([]string(nil), tr.V2...)})
			} else {
				l = append(l, &cisco.Obj{Head: fmt.Sprintf("crypto ipsec ikev1 transform-set %s %s", tr.Name, tr.Spec)})
			}
		}
		for _, c := range g.Crypto {
			for _, e := range c.Entries {
				pre := fmt.Sprintf("crypto map %s %d ", c.Map, e.Seq)
				l = append(l, &cisco.Obj{Head: pre + "match address " + e.ACL})
				if e.PFS != "" {
					l = append(l, &cisco.Obj{Head: pre + "set pfs " + e.PFS})
				}
				l = append(l, &cisco.Obj{Head: pre + "set peer " + e.Peer})
				if e.Trans != "" && v2[e.Trans] {
					l = append(l, &cisco.Obj{Head: pre + "set ikev2 ipsec-proposal " + e.Trans})
				} else if e.Trans != "" {
					l = append(l, &cisco.Obj{Head: pre + "set ikev1 transform-set " + e.Trans})
				}
				if e.Life != "" {
					l = append(l, &cisco.Obj{Head: pre + "set security-association lifetime seconds " + e.Life})
				}
			}
			l = append(l, &cisco.Obj{Head: fmt.Sprintf("crypto map %s interface %s", c.Map, c.Iface)})
		}
		return l
	}
	for _, c := range g.Crypto {
		for _, e := range c.Entries {
			o := &cisco.Obj{Head: fmt.Sprintf("crypto map %s %d ipsec-isakmp", c.Map, e.Seq), Mode: true}
			if e.ACL != "" {
				o.Subs = append(o.Subs, "set ip access-group "+e.ACL+" in")
			}
			o.Subs = append(o.Subs, "set peer "+e.Peer)
			l = append(l, o)
		}
	}
	return l
}

// DropInterfaces removes up to n interfaces with everything bound to them from
// the device.
func DropInterfaces(a *GConf, n int) []string {
	var ops []string
	for ; n > 0 && len(a.Ifaces) > 1; n-- {
		i := a.Ifaces[len(a.Ifaces)-1]
		a.Ifaces = a.Ifaces[:len(a.Ifaces)-1]
		name := i.Name
		if a.Kind == "IOS" {
			name = i.HW
		}
		var kb []GBind
		for _, b := range a.Binds {
			if b.Iface != name {
				kb = append(kb, b)
			}
		}
		a.Binds = kb
		var kr []GRoute
		for _, r := range a.Routes {
			if r.Iface != name || a.Kind == "IOS" {
				kr = append(kr, r)
			}
		}
		a.Routes = kr
		var kc []GCrypto
		for _, c := range a.Crypto {
			if c.Iface != name {
				kc = append(kc, c)
			}
		}
		a.Crypto = kc
		ops = append(ops, "device lacks interface "+name)
	}
	return ops
}

// acesOverlap: some packet of the universe matches both lines.
func acesOverlap(g *GConf, x, y GACE) bool {
	conf := g.ToConf(true)
	rx, ok1, err1 := cisco.ParseRule(conf, x.Render(g.Kind))
	ry, ok2, err2 := cisco.ParseRule(conf, y.Render(g.Kind))
	if !ok1 || !ok2 || err1 != nil || err2 != nil {
		return false
	}
	for _, p := range Packets() {
		if rx.Match(p) && ry.Match(p) {
			return true
		}
	}
	return false
}
