// Package gen holds the seeded generators of device states and targets.
// Every choice is drawn from a tape, so a case is a pure function of it and
// shrinks with it.
package gen

import (
	"fmt"
	"net/netip"
	"strings"

	"verif/sim/cisco"
	"verif/sim/tape"
)

type GAddr struct {
	Kind string // any, host, net, group
	Val  string // ip, "ip/len" index, group name
	Bits int
}

type GACE struct {
	Remark string
	Permit bool
	Proto  string
	Src    GAddr
	Dst    GAddr
	Port   string // "", "eq 80", "range 1024 65535"
	Log    string // "", "log", "log 4", "log-input"
}

type GGroup struct {
	Name    string
	Members []GAddr
}

type GACL struct {
	Name  string
	Lines []GACE
}

type GBind struct {
	Iface string
	Dir   string
	ACL   string
}

type GRoute struct {
	V6    bool
	Iface string // ASA
	VRF   string // IOS
	Dst   string // ip
	Bits  int
	Hop   string
}

type GIface struct {
	HW     string // Ethernet0/0, GigabitEthernet0/1
	Name   string // ASA nameif
	VRF    string
	Shut   bool
	Addr   string
	Extras []string
}

type GConf struct {
	Kind   string
	Ifaces []GIface
	Groups []GGroup
	ACLs   []GACL
	Binds  []GBind
	Routes []GRoute
	// Unmanaged clutter (device side only).
	Clutter []*cisco.Obj
}

var hosts = []string{"10.1.1.1", "10.1.1.2", "10.1.2.1", "10.2.0.1", "10.1.1.9", "192.168.1.1"}
var nets = []struct {
	IP   string
	Bits int
}{{"10.1.1.0", 24}, {"10.1.2.0", 24}, {"10.1.0.0", 16}, {"10.0.0.0", 8}, {"10.2.0.0", 24}, {"192.168.1.0", 24}}
var ports = []string{"eq 80", "eq 22", "eq 443", "eq 53", "range 1024 65535", "eq 25", ""}

// Packets is the universe for first-match evaluation.
func Packets() []cisco.Packet {
	var l []cisco.Packet
	srcs := []string{"10.1.1.1", "10.1.1.2", "10.1.2.1", "10.2.0.1", "172.16.0.1"}
	dsts := []string{"10.1.1.1", "10.1.2.1", "10.2.0.1", "192.168.1.1", "8.8.8.8"}
	svcs := []struct {
		p    string
		port int
	}{{"tcp", 80}, {"tcp", 22}, {"udp", 53}, {"icmp", 8}, {"tcp", 2000}}
	for _, s := range srcs {
		for _, d := range dsts {
			for _, v := range svcs {
				l = append(l, cisco.Packet{Proto: v.p, Src: mustAddr(s), Dst: mustAddr(d), Port: v.port})
			}
		}
	}
	return l
}

func maskOf(bits int, wildcard bool) string {
	var m uint32 = 0
	if bits > 0 {
		m = ^uint32(0) << (32 - uint(bits))
	}
	if wildcard {
		m = ^m
	}
	return fmt.Sprintf("%d.%d.%d.%d", byte(m>>24), byte(m>>16), byte(m>>8), byte(m))
}

func (a GAddr) render(kind string) string {
	switch a.Kind {
	case "any":
		if kind == "ASA" {
			return "any4"
		}
		return "any"
	case "host":
		return "host " + a.Val
	case "net":
		return a.Val + " " + maskOf(a.Bits, kind == "IOS")
	case "group":
		return "object-group " + a.Val
	}
	return "any"
}

func (e GACE) Render(kind string) string {
	if e.Remark != "" {
		return "remark " + e.Remark
	}
	act := "deny"
	if e.Permit {
		act = "permit"
	}
	s := act + " " + e.Proto + " " + e.Src.render(kind) + " " + e.Dst.render(kind)
	if e.Port != "" && (e.Proto == "tcp" || e.Proto == "udp") {
		s += " " + e.Port
	}
	if e.Proto == "icmp" && e.Port != "" {
		s += " " + e.Port
	}
	if e.Log != "" {
		s += " " + e.Log
	}
	if kind == "ASA" {
		return "extended " + s
	}
	return s
}

// key for duplicate detection (log-insensitive).
func (e GACE) key() string {
	c := e
	c.Log = ""
	return c.Render("ASA")
}

type Knobs struct {
	Kind       string
	MaxIfaces  int
	MaxLines   int
	MaxGroups  int
	MaxRoutes  int
	MaxEdits   int
	Clutter    bool // unmanaged content on the device
	Remarks    bool
	LogVariety bool
	LongACL    bool
	Independent bool // draw A independently of B
	Shaped      bool // Netspoc-shaped ACLs: deny block, permits, final deny; edits keep the shape
	NoShare     bool // never bind one ACL twice on the device
}

func DefaultKnobs(kind string, t *tape.Tape) Knobs {
	k := Knobs{Kind: kind, MaxIfaces: 1 + t.Next(3), MaxLines: 2 + t.Next(8),
		MaxGroups: t.Next(4), MaxRoutes: t.Next(5), MaxEdits: 1 + t.Next(7)}
	k.Clutter = t.Chance(1, 3)
	k.Remarks = t.Chance(1, 4)
	k.LogVariety = t.Chance(1, 3)
	k.Independent = t.Chance(1, 12)
	if kind == "IOS" {
		k.MaxGroups = 0
	}
	return k
}

func genAddr(t *tape.Tape, groups []GGroup) GAddr {
	switch n := t.Next(10); {
	case n < 3:
		return GAddr{Kind: "host", Val: tape.Pick(t, hosts)}
	case n < 6:
		x := tape.Pick(t, nets)
		return GAddr{Kind: "net", Val: x.IP, Bits: x.Bits}
	case n < 8 && len(groups) > 0:
		return GAddr{Kind: "group", Val: tape.Pick(t, groups).Name}
	}
	return GAddr{Kind: "any"}
}

func genACE(t *tape.Tape, k Knobs, groups []GGroup) GACE {
	e := GACE{Permit: t.Next(4) != 3}
	e.Proto = []string{"ip", "tcp", "tcp", "udp", "icmp"}[t.Next(5)]
	e.Src = genAddr(t, groups)
	e.Dst = genAddr(t, groups)
	switch e.Proto {
	case "tcp", "udp":
		e.Port = tape.Pick(t, ports)
	case "icmp":
		e.Port = []string{"", "8", "0", "3"}[t.Next(4)]
	}
	if k.LogVariety {
		if k.Kind == "ASA" {
			e.Log = []string{"", "", "log", "log 4", "log 3 interval 30", "log disable"}[t.Next(6)]
		} else {
			e.Log = []string{"", "", "log", "log-input"}[t.Next(4)]
		}
	}
	return e
}

func genACL(t *tape.Tape, k Knobs, name string, groups []GGroup) GACL {
	a := GACL{Name: name}
	if k.Shaped {
		seen := map[string]bool{}
		for i, n := 0, t.Next(3); i < n; i++ {
			e := GACE{Proto: "ip", Src: GAddr{Kind: "any"}, Dst: GAddr{Kind: "host", Val: tape.Pick(t, hosts)}}
			if !seen[e.key()] {
				seen[e.key()] = true
				a.Lines = append(a.Lines, e)
			}
		}
		for i, n := 0, 1+t.Next(k.MaxLines); i < n; i++ {
			e := genACE(t, k, groups)
			e.Permit = true
			if !seen[e.key()] {
				seen[e.key()] = true
				a.Lines = append(a.Lines, e)
			}
		}
		a.Lines = append(a.Lines, GACE{Proto: "ip", Src: GAddr{Kind: "any"}, Dst: GAddr{Kind: "any"}})
		return a
	}
	n := 1 + t.Next(k.MaxLines)
	seen := map[string]bool{}
	for i := 0; i < n; i++ {
		if k.Remarks && t.Chance(1, 6) {
			a.Lines = append(a.Lines, GACE{Remark: fmt.Sprintf("rule %d", t.Next(50))})
			continue
		}
		e := genACE(t, k, groups)
		if seen[e.key()] {
			continue
		}
		seen[e.key()] = true
		a.Lines = append(a.Lines, e)
	}
	if t.Next(3) != 0 {
		e := GACE{Proto: "ip", Src: GAddr{Kind: "any"}, Dst: GAddr{Kind: "any"}}
		if !seen[e.key()] {
			a.Lines = append(a.Lines, e)
		}
	}
	if len(a.Lines) == 0 || allRemarks(a.Lines) {
		a.Lines = append(a.Lines, GACE{Permit: true, Proto: "ip", Src: GAddr{Kind: "host", Val: hosts[0]}, Dst: GAddr{Kind: "any"}})
	}
	return a
}

func allRemarks(l []GACE) bool {
	for _, e := range l {
		if e.Remark == "" {
			return false
		}
	}
	return true
}

var asaIfNames = []string{"inside", "outside", "dmz"}
var iosIfNames = []string{"GigabitEthernet0/0", "GigabitEthernet0/1", "Serial1", "Vlan10"}

// GenTarget draws the effective target B.
func GenTarget(t *tape.Tape, k Knobs) *GConf {
	g := &GConf{Kind: k.Kind}
	nIf := 1 + t.Next(k.MaxIfaces)
	for i := 0; i < nIf; i++ {
		if k.Kind == "ASA" {
			g.Ifaces = append(g.Ifaces, GIface{HW: fmt.Sprintf("Ethernet0/%d", i), Name: asaIfNames[i]})
		} else {
			g.Ifaces = append(g.Ifaces, GIface{HW: iosIfNames[i], Addr: fmt.Sprintf("10.%d.0.1 255.255.255.0", 9+i)})
		}
	}
	for i := 0; i < k.MaxGroups; i++ {
		gr := GGroup{Name: fmt.Sprintf("g%d", i)}
		n := 1 + t.Next(4)
		seen := map[string]bool{}
		for j := 0; j < n; j++ {
			var m GAddr
			if t.Next(2) == 0 {
				m = GAddr{Kind: "host", Val: tape.Pick(t, hosts)}
			} else {
				x := tape.Pick(t, nets)
				m = GAddr{Kind: "net", Val: x.IP, Bits: x.Bits}
			}
			if !seen[m.render("ASA")] {
				seen[m.render("ASA")] = true
				gr.Members = append(gr.Members, m)
			}
		}
		g.Groups = append(g.Groups, gr)
	}
	for i, intf := range g.Ifaces {
		ifName := intf.Name
		if k.Kind == "IOS" {
			ifName = intf.HW
		}
		if t.Next(8) != 0 {
			name := fmt.Sprintf("%s_in", strings.ReplaceAll(ifName, "/", "_"))
			g.ACLs = append(g.ACLs, genACL(t, k, name, g.Groups))
			g.Binds = append(g.Binds, GBind{Iface: ifName, Dir: "in", ACL: name})
		}
		if t.Next(4) == 0 {
			name := fmt.Sprintf("%s_out", strings.ReplaceAll(ifName, "/", "_"))
			g.ACLs = append(g.ACLs, genACL(t, k, name, g.Groups))
			g.Binds = append(g.Binds, GBind{Iface: ifName, Dir: "out", ACL: name})
		}
		_ = i
	}
	// Only groups that are referenced belong to the target.
	g.pruneGroups()
	seen := map[string]bool{}
	for i := 0; i < k.MaxRoutes; i++ {
		x := tape.Pick(t, nets)
		r := GRoute{Dst: x.IP, Bits: x.Bits, Hop: fmt.Sprintf("10.9.0.%d", 2+t.Next(4))}
		if t.Next(5) == 0 {
			r.Dst, r.Bits = "0.0.0.0", 0
		}
		if k.Kind == "ASA" {
			r.Iface = g.Ifaces[t.Next(len(g.Ifaces))].Name
		}
		key := fmt.Sprintf("%s/%d", r.Dst, r.Bits)
		if seen[key] {
			continue
		}
		seen[key] = true
		g.Routes = append(g.Routes, r)
	}
	return g
}

func (g *GConf) pruneGroups() {
	used := map[string]bool{}
	for _, a := range g.ACLs {
		for _, e := range a.Lines {
			if e.Src.Kind == "group" {
				used[e.Src.Val] = true
			}
			if e.Dst.Kind == "group" {
				used[e.Dst.Val] = true
			}
		}
	}
	var keep []GGroup
	for _, gr := range g.Groups {
		if used[gr.Name] {
			keep = append(keep, gr)
		}
	}
	g.Groups = keep
}

func (g *GConf) clone() *GConf {
	n := &GConf{Kind: g.Kind}
	n.Ifaces = append(n.Ifaces, g.Ifaces...)
	for _, gr := range g.Groups {
		n.Groups = append(n.Groups, GGroup{gr.Name, append([]GAddr(nil), gr.Members...)})
	}
	for _, a := range g.ACLs {
		n.ACLs = append(n.ACLs, GACL{a.Name, append([]GACE(nil), a.Lines...)})
	}
	n.Binds = append(n.Binds, g.Binds...)
	n.Routes = append(n.Routes, g.Routes...)
	return n
}

func (g *GConf) acl(name string) *GACL {
	for i := range g.ACLs {
		if g.ACLs[i].Name == name {
			return &g.ACLs[i]
		}
	}
	return nil
}

func (g *GConf) renameGroup(old, new string) {
	for i := range g.Groups {
		if g.Groups[i].Name == old {
			g.Groups[i].Name = new
		}
	}
	for i := range g.ACLs {
		for j := range g.ACLs[i].Lines {
			e := &g.ACLs[i].Lines[j]
			if e.Src.Kind == "group" && e.Src.Val == old {
				e.Src.Val = new
			}
			if e.Dst.Kind == "group" && e.Dst.Val == old {
				e.Dst.Val = new
			}
		}
	}
}

func (g *GConf) renameACL(old, new string) {
	for i := range g.ACLs {
		if g.ACLs[i].Name == old {
			g.ACLs[i].Name = new
		}
	}
	for i := range g.Binds {
		if g.Binds[i].ACL == old {
			g.Binds[i].ACL = new
		}
	}
}

func hasDup(lines []GACE, e GACE, except int) bool {
	for i, x := range lines {
		if i != except && x.Remark == "" && e.Remark == "" && x.key() == e.key() {
			return true
		}
	}
	return false
}

// DeriveDevice derives the device state A from the target by edit operators.
// The result uses device-style names (NAME-DRC-n).
func DeriveDevice(t *tape.Tape, k Knobs, b *GConf) (*GConf, []string) {
	a := b.clone()
	var ops []string
	// Device names carry the tag of an earlier run.
	if t.Next(6) != 0 {
		for _, gr := range b.Groups {
			a.renameGroup(gr.Name, fmt.Sprintf("%s-DRC-%d", gr.Name, t.Next(2)))
		}
		for _, acl := range b.ACLs {
			a.renameACL(acl.Name, fmt.Sprintf("%s-DRC-%d", acl.Name, t.Next(2)))
		}
	}
	nEdits := t.Next(k.MaxEdits + 1)
	for i := 0; i < nEdits; i++ {
		op := t.Next(16)
		switch {
		case op <= 6 && len(a.ACLs) > 0 && k.Shaped: // shape-preserving line edits
			acl := &a.ACLs[t.Next(len(a.ACLs))]
			lo, hi := permitBlock(acl.Lines)
			switch op {
			case 0:
				if hi-lo > 1 {
					j := lo + t.Next(hi-lo)
					acl.Lines = append(acl.Lines[:j:j], acl.Lines[j+1:]...)
					ops = append(ops, fmt.Sprintf("del permit %d of %s", j, acl.Name))
				}
			case 1, 2:
				e := genACE(t, k, a.Groups)
				e.Permit = true
				if !hasDup(acl.Lines, e, -1) {
					j := lo + t.Next(hi-lo+1)
					acl.Lines = append(acl.Lines[:j:j], append([]GACE{e}, acl.Lines[j:]...)...)
					ops = append(ops, fmt.Sprintf("ins permit %d of %s", j, acl.Name))
				}
			case 3, 4:
				if hi-lo > 1 {
					j := lo + t.Next(hi-lo)
					e := acl.Lines[j]
					rest := append(acl.Lines[:j:j], acl.Lines[j+1:]...)
					p := lo + t.Next(hi-lo)
					acl.Lines = append(rest[:p:p], append([]GACE{e}, rest[p:]...)...)
					ops = append(ops, fmt.Sprintf("move permit %d->%d of %s", j, p, acl.Name))
				}
			case 5:
				j := t.Next(len(acl.Lines))
				if k.Kind == "ASA" {
					acl.Lines[j].Log = []string{"", "log", "log 4"}[t.Next(3)]
				} else {
					acl.Lines[j].Log = []string{"", "log", "log-input"}[t.Next(3)]
				}
				ops = append(ops, fmt.Sprintf("log of line %d of %s", j, acl.Name))
			case 6: // deny block: add or remove a host deny in front
				if lo > 0 && t.Next(2) == 0 {
					j := t.Next(lo)
					acl.Lines = append(acl.Lines[:j:j], acl.Lines[j+1:]...)
					ops = append(ops, "del deny of "+acl.Name)
				} else {
					e := GACE{Proto: "ip", Src: GAddr{Kind: "any"}, Dst: GAddr{Kind: "host", Val: tape.Pick(t, hosts)}}
					if !hasDup(acl.Lines, e, -1) {
						j := t.Next(lo + 1)
						acl.Lines = append(acl.Lines[:j:j], append([]GACE{e}, acl.Lines[j:]...)...)
						ops = append(ops, "ins deny of "+acl.Name)
					}
				}
			}
		case op <= 6 && len(a.ACLs) > 0: // line edits
			acl := &a.ACLs[t.Next(len(a.ACLs))]
			switch op {
			case 0: // delete a line
				if len(acl.Lines) > 1 {
					j := t.Next(len(acl.Lines))
					acl.Lines = append(acl.Lines[:j:j], acl.Lines[j+1:]...)
					if !allRemarks(acl.Lines) {
						ops = append(ops, fmt.Sprintf("del line %d of %s", j, acl.Name))
					} else {
						acl.Lines = append(acl.Lines, GACE{Permit: true, Proto: "ip", Src: GAddr{Kind: "any"}, Dst: GAddr{Kind: "host", Val: hosts[1]}})
					}
				}
			case 1, 2: // insert a new line
				e := genACE(t, k, a.Groups)
				if !hasDup(acl.Lines, e, -1) {
					j := t.Next(len(acl.Lines) + 1)
					acl.Lines = append(acl.Lines[:j:j], append([]GACE{e}, acl.Lines[j:]...)...)
					ops = append(ops, fmt.Sprintf("ins line %d of %s", j, acl.Name))
				}
			case 3: // move a line
				if len(acl.Lines) > 1 {
					j := t.Next(len(acl.Lines))
					e := acl.Lines[j]
					rest := append(acl.Lines[:j:j], acl.Lines[j+1:]...)
					p := t.Next(len(rest) + 1)
					acl.Lines = append(rest[:p:p], append([]GACE{e}, rest[p:]...)...)
					ops = append(ops, fmt.Sprintf("move line %d->%d of %s", j, p, acl.Name))
				}
			case 4: // swap adjacent
				if len(acl.Lines) > 1 {
					j := t.Next(len(acl.Lines) - 1)
					acl.Lines[j], acl.Lines[j+1] = acl.Lines[j+1], acl.Lines[j]
					ops = append(ops, fmt.Sprintf("swap %d,%d of %s", j, j+1, acl.Name))
				}
			case 5: // change log option
				j := t.Next(len(acl.Lines))
				if acl.Lines[j].Remark == "" {
					if k.Kind == "ASA" {
						acl.Lines[j].Log = []string{"", "log", "log 4", "log 7 interval 10"}[t.Next(4)]
					} else {
						acl.Lines[j].Log = []string{"", "log", "log-input"}[t.Next(3)]
					}
					ops = append(ops, fmt.Sprintf("log of line %d of %s", j, acl.Name))
				}
			case 6: // flip action
				j := t.Next(len(acl.Lines))
				if acl.Lines[j].Remark == "" {
					acl.Lines[j].Permit = !acl.Lines[j].Permit
					ops = append(ops, fmt.Sprintf("flip line %d of %s", j, acl.Name))
				}
			}
		case op == 7 && len(a.Groups) > 0: // group member add / remove
			gr := &a.Groups[t.Next(len(a.Groups))]
			if t.Next(2) == 0 && len(gr.Members) > 1 {
				j := t.Next(len(gr.Members))
				gr.Members = append(gr.Members[:j:j], gr.Members[j+1:]...)
				ops = append(ops, "remove member of "+gr.Name)
			} else {
				m := GAddr{Kind: "host", Val: tape.Pick(t, hosts)}
				dup := false
				for _, x := range gr.Members {
					if x == m {
						dup = true
					}
				}
				if !dup {
					gr.Members = append(gr.Members, m)
					ops = append(ops, "add member to "+gr.Name)
				}
			}
		case op == 8 && len(a.Groups) > 0: // duplicate a group under another name (left-over)
			gr := a.Groups[t.Next(len(a.Groups))]
			base, _, _ := strings.Cut(gr.Name, "-DRC-")
			name := fmt.Sprintf("%s-DRC-%d", base, 2+t.Next(3))
			exists := false
			for _, x := range a.Groups {
				if x.Name == name {
					exists = true
				}
			}
			if !exists {
				a.Groups = append(a.Groups, GGroup{name, append([]GAddr(nil), gr.Members...)})
				ops = append(ops, "duplicate group "+gr.Name+" as "+name)
			}
		case op == 9 && len(a.Groups) > 0: // split: one reference uses an identical copy
			gr := a.Groups[t.Next(len(a.Groups))]
			base, _, _ := strings.Cut(gr.Name, "-DRC-")
			name := fmt.Sprintf("%s-DRC-%d", base, 5+t.Next(3))
			exists := false
			for _, x := range a.Groups {
				if x.Name == name {
					exists = true
				}
			}
			if exists {
				break
			}
			done := false
			for i := range a.ACLs {
				for j := range a.ACLs[i].Lines {
					e := &a.ACLs[i].Lines[j]
					if !done && e.Src.Kind == "group" && e.Src.Val == gr.Name {
						e.Src.Val = name
						done = true
					} else if !done && e.Dst.Kind == "group" && e.Dst.Val == gr.Name && t.Next(2) == 0 {
						e.Dst.Val = name
						done = true
					}
				}
			}
			if done {
				a.Groups = append(a.Groups, GGroup{name, append([]GAddr(nil), gr.Members...)})
				ops = append(ops, "split group "+gr.Name+" -> "+name)
			}
		case op == 10 && len(a.Routes) > 0: // change hop
			j := t.Next(len(a.Routes))
			a.Routes[j].Hop = fmt.Sprintf("10.9.0.%d", 6+t.Next(3))
			ops = append(ops, "change hop of route "+a.Routes[j].Dst)
		case op == 11 && len(a.Routes) > 0: // remove route
			j := t.Next(len(a.Routes))
			a.Routes = append(a.Routes[:j:j], a.Routes[j+1:]...)
			ops = append(ops, "remove route")
		case op == 12: // extra route on device
			x := tape.Pick(t, nets)
			r := GRoute{Dst: x.IP, Bits: x.Bits, Hop: fmt.Sprintf("10.9.0.%d", 2+t.Next(4))}
			if t.Next(4) == 0 {
				r.Dst, r.Bits = "0.0.0.0", 0
			}
			if k.Kind == "ASA" {
				r.Iface = a.Ifaces[t.Next(len(a.Ifaces))].Name
			}
			dup := false
			for _, y := range a.Routes {
				if y.Dst == r.Dst && y.Bits == r.Bits {
					dup = true
				}
			}
			if !dup {
				a.Routes = append(a.Routes, r)
				ops = append(ops, "extra route "+r.Dst)
			}
		case op == 13 && len(a.Binds) > 0: // ACL not bound on device
			j := t.Next(len(a.Binds))
			name := a.Binds[j].ACL
			a.Binds = append(a.Binds[:j:j], a.Binds[j+1:]...)
			// The ACL itself may stay as left-over or be absent.
			if t.Next(2) == 0 {
				for i := range a.ACLs {
					if a.ACLs[i].Name == name {
						a.ACLs = append(a.ACLs[:i:i], a.ACLs[i+1:]...)
						break
					}
				}
			}
			ops = append(ops, "unbind "+name)
		case op == 14 && len(a.ACLs) > 0 && !k.Shaped: // completely different ACL content
			acl := &a.ACLs[t.Next(len(a.ACLs))]
			*acl = genACL(t, k, acl.Name, a.Groups)
			ops = append(ops, "replace content of "+acl.Name)
		case op == 15 && len(a.ACLs) > 1 && !k.NoShare: // two interfaces share one ACL on the device
			if len(a.Binds) > 1 {
				a.Binds[1].ACL = a.Binds[0].ACL
				ops = append(ops, "share ACL "+a.Binds[0].ACL)
			}
		}
	}
	return a, ops
}

func mustAddr(s string) netip.Addr { return netip.MustParseAddr(s) }

// ToConf renders an abstract configuration as node state.  asDevice adds what
// only a device has (interface definitions, hostname).
func (g *GConf) ToConf(asDevice bool) *cisco.Conf {
	c := &cisco.Conf{Kind: g.Kind}
	if asDevice {
		c.Hostname = "router"
	}
	for _, i := range g.Ifaces {
		if g.Kind == "ASA" {
			if !asDevice {
				continue
			}
			o := &cisco.Obj{Head: "interface " + i.HW, Mode: true}
			if i.Name != "" {
				o.Subs = append(o.Subs, "nameif "+i.Name)
			}
			if i.Shut {
				o.Subs = append(o.Subs, "shutdown")
			}
			o.Subs = append(o.Subs, i.Extras...)
			c.Objs = append(c.Objs, o)
			continue
		}
		o := &cisco.Obj{Head: "interface " + i.HW, Mode: true}
		if i.VRF != "" {
			o.Subs = append(o.Subs, "vrf forwarding "+i.VRF)
		}
		if i.Addr != "" {
			o.Subs = append(o.Subs, "ip address "+i.Addr)
		}
		if i.Shut {
			o.Subs = append(o.Subs, "shutdown")
		}
		for _, b := range g.Binds {
			if b.Iface == i.HW {
				o.Subs = append(o.Subs, "ip access-group "+b.ACL+" "+b.Dir)
			}
		}
		o.Subs = append(o.Subs, i.Extras...)
		c.Objs = append(c.Objs, o)
	}
	for _, gr := range g.Groups {
		o := &cisco.Obj{Head: "object-group network " + gr.Name, Mode: true}
		for _, m := range gr.Members {
			if m.Kind == "host" {
				o.Subs = append(o.Subs, "network-object host "+m.Val)
			} else {
				o.Subs = append(o.Subs, "network-object "+m.Val+" "+maskOf(m.Bits, false))
			}
		}
		c.Objs = append(c.Objs, o)
	}
	for _, a := range g.ACLs {
		acl := &cisco.ACL{Name: a.Name}
		for i, e := range a.Lines {
			acl.Entries = append(acl.Entries, &cisco.ACE{Seq: 10 * (i + 1), Text: e.Render(g.Kind)})
		}
		c.ACLs = append(c.ACLs, acl)
	}
	if g.Kind == "ASA" {
		for _, b := range g.Binds {
			c.Objs = append(c.Objs, &cisco.Obj{Head: fmt.Sprintf("access-group %s %s interface %s", b.ACL, b.Dir, b.Iface)})
		}
	}
	for _, r := range g.Routes {
		if g.Kind == "ASA" {
			c.Objs = append(c.Objs, &cisco.Obj{Head: fmt.Sprintf("route %s %s %s %s", r.Iface, r.Dst, maskOf(r.Bits, false), r.Hop)})
		} else if r.VRF != "" {
			c.Objs = append(c.Objs, &cisco.Obj{Head: fmt.Sprintf("ip route vrf %s %s %s %s", r.VRF, r.Dst, maskOf(r.Bits, false), r.Hop)})
		} else {
			c.Objs = append(c.Objs, &cisco.Obj{Head: fmt.Sprintf("ip route %s %s %s", r.Dst, maskOf(r.Bits, false), r.Hop)})
		}
	}
	c.Objs = append(c.Objs, g.Clutter...)
	return c
}

// AddClutter puts unmanaged content on the device: an interface unknown to
// the target with its own ACL and group, untagged unused objects, unmodelled
// lines.
func AddClutter(t *tape.Tape, a *GConf) []string {
	var what []string
	if a.Kind == "ASA" {
		if t.Next(2) == 0 {
			a.Ifaces = append(a.Ifaces, GIface{HW: "Management0/0", Name: "mgmt", Shut: t.Next(2) == 0})
			if t.Next(3) != 0 {
				name := "mgmt_acl"
				if t.Next(2) == 0 {
					name = "mgmt_in-DRC-0" // looks generated but is bound to an unmanaged interface
				}
				acl := GACL{Name: name, Lines: []GACE{
					{Permit: true, Proto: "tcp", Src: GAddr{Kind: "host", Val: "10.99.0.1"}, Dst: GAddr{Kind: "any"}, Port: "eq 22"}}}
				if t.Next(2) == 0 {
					gname := "mgmt_hosts"
					if t.Next(2) == 0 {
						gname = "mg-DRC-0"
					}
					a.Groups = append(a.Groups, GGroup{gname, []GAddr{{Kind: "host", Val: "10.99.0.7"}}})
					acl.Lines = append(acl.Lines, GACE{Permit: true, Proto: "ip", Src: GAddr{Kind: "group", Val: gname}, Dst: GAddr{Kind: "any"}})
				}
				a.ACLs = append(a.ACLs, acl)
				a.Binds = append(a.Binds, GBind{Iface: "mgmt", Dir: "in", ACL: name})
				what = append(what, "unmanaged interface mgmt with ACL "+name)
			}
		}
		if t.Next(2) == 0 {
			a.Groups = append(a.Groups, GGroup{"manual_group", []GAddr{{Kind: "host", Val: "10.77.0.1"}}})
			what = append(what, "unused untagged group")
		}
		if t.Next(2) == 0 {
			a.ACLs = append(a.ACLs, GACL{Name: "manual_acl", Lines: []GACE{
				{Permit: true, Proto: "ip", Src: GAddr{Kind: "host", Val: "10.77.0.2"}, Dst: GAddr{Kind: "any"}}}})
			what = append(what, "unused untagged ACL")
		}
		if t.Next(2) == 0 {
			a.Clutter = append(a.Clutter,
				&cisco.Obj{Head: "snmp-server host inside 10.9.9.9 community xyz", Opaque: true},
				&cisco.Obj{Head: "aaa-server LDAPX protocol ldap"},
				&cisco.Obj{Head: "aaa-server LDAPX (inside) host 10.9.9.8", Mode: true, Subs: []string{"ldap-base-dn dc=example"}},
				&cisco.Obj{Head: "policy-map global_policy", Opaque: true, Subs: []string{"class inspection_default", " inspect dns"}},
			)
			what = append(what, "unmodelled lines and aaa-server")
		}
	} else {
		if t.Next(2) == 0 {
			i := GIface{HW: "Loopback7", VRF: "", Addr: "10.77.7.7 255.255.255.255"}
			if t.Next(2) == 0 {
				i.VRF = "mgmtvrf"
			}
			a.Ifaces = append(a.Ifaces, i)
			if t.Next(3) != 0 {
				name := "lo7_acl"
				if t.Next(2) == 0 {
					name = "Loopback7_in-DRC-0"
				}
				a.ACLs = append(a.ACLs, GACL{Name: name, Lines: []GACE{
					{Permit: true, Proto: "tcp", Src: GAddr{Kind: "host", Val: "10.99.0.1"}, Dst: GAddr{Kind: "any"}, Port: "eq 22"}}})
				a.Binds = append(a.Binds, GBind{Iface: "Loopback7", Dir: "in", ACL: name})
			}
			what = append(what, "interface unknown to the target: Loopback7 vrf="+i.VRF)
		}
		if t.Next(2) == 0 {
			a.ACLs = append(a.ACLs, GACL{Name: "manual_acl", Lines: []GACE{
				{Permit: true, Proto: "ip", Src: GAddr{Kind: "host", Val: "10.77.0.2"}, Dst: GAddr{Kind: "any"}}}})
			what = append(what, "unused untagged ACL")
		}
		if t.Next(2) == 0 {
			a.Routes = append(a.Routes, GRoute{VRF: "othervrf", Dst: "10.55.0.0", Bits: 16, Hop: "10.9.0.9"})
			what = append(what, "route in a VRF unknown to the target")
		}
		if t.Next(2) == 0 {
			a.Clutter = append(a.Clutter,
				&cisco.Obj{Head: "snmp-server community xyz RO", Opaque: true},
				&cisco.Obj{Head: "router ospf 1", Opaque: true, Subs: []string{"network 10.0.0.0 0.255.255.255 area 0"}},
			)
			what = append(what, "unmodelled lines")
		}
	}
	return what
}

// permitBlock returns the index range [lo,hi) of the permit lines of a shaped ACL.
func permitBlock(l []GACE) (int, int) {
	lo := 0
	for lo < len(l) && !l[lo].Permit {
		lo++
	}
	hi := lo
	for hi < len(l) && l[hi].Permit {
		hi++
	}
	return lo, hi
}
