// maporder rewrites a scratch copy of the repository so that every iteration
// over a Go map goes through verifmap.Order, whose order the simulator owns.
//
//	maporder DIR     (DIR = root of the copied module, i.e. .../go)
//
// It rewrites `for k, v := range m` (m of map type) and maps.Keys / maps.Values
// / maps.All calls, adds the import and writes package verifmap into DIR/pkg.
package main

import (
	"bytes"
	"fmt"
	"go/ast"
	"go/format"
	"go/token"
	"go/types"
	"os"
	"path/filepath"
	"strconv"

	"golang.org/x/tools/go/ast/astutil"
	"golang.org/x/tools/go/packages"
)

const verifmapSrc = `// Package verifmap is the map-iteration seam of the simulator (generated).
package verifmap

import (
	"fmt"
	"iter"
	"reflect"
	"sort"
	"strings"
)

// Choose returns a permutation of 0..n-1 for the iteration at site, or nil
// for ascending order.  Set by the simulator.
var Choose func(site string, n int) []int

// Sites counts how often each site iterated over more than one element.
var Sites = map[string]int{}

func render(v reflect.Value, depth int) string {
	switch v.Kind() {
	case reflect.Pointer, reflect.Interface:
		if v.IsNil() {
			return "nil"
		}
		if depth > 1 {
			return "&"
		}
		return "&" + render(v.Elem(), depth+1)
	case reflect.Struct:
		var b strings.Builder
		b.WriteString("{")
		for i := 0; i < v.NumField(); i++ {
			f := v.Field(i)
			switch f.Kind() {
			case reflect.Pointer, reflect.Map, reflect.Func, reflect.Chan, reflect.Interface:
				continue
			case reflect.Slice:
				if f.Type().Elem().Kind() == reflect.Pointer {
					fmt.Fprintf(&b, "#%d ", f.Len())
					continue
				}
			}
			b.WriteString(render(f, depth+1))
			b.WriteString(" ")
		}
		b.WriteString("}")
		return b.String()
	case reflect.String:
		return fmt.Sprintf("%q", v.String())
	case reflect.Int, reflect.Int8, reflect.Int16, reflect.Int32, reflect.Int64:
		return fmt.Sprintf("%020d", v.Int()+1<<62)
	case reflect.Uint, reflect.Uint8, reflect.Uint16, reflect.Uint32, reflect.Uint64:
		return fmt.Sprintf("%020d", v.Uint())
	case reflect.Slice, reflect.Array:
		var b strings.Builder
		b.WriteString("[")
		for i := 0; i < v.Len(); i++ {
			b.WriteString(render(v.Index(i), depth+1))
			b.WriteString(" ")
		}
		b.WriteString("]")
		return b.String()
	}
	if v.CanInterface() {
		return fmt.Sprint(v.Interface())
	}
	return fmt.Sprintf("%v", v)
}

func keys[M ~map[K]V, K comparable, V any](m M, site string) []K {
	ks := make([]K, 0, len(m))
	for k := range m {
		ks = append(ks, k)
	}
	if len(ks) < 2 {
		return ks
	}
	rs := make([]string, len(ks))
	for i, k := range ks {
		rs[i] = render(reflect.ValueOf(&k).Elem(), 0)
	}
	idx := make([]int, len(ks))
	for i := range idx {
		idx[i] = i
	}
	sort.SliceStable(idx, func(a, b int) bool { return rs[idx[a]] < rs[idx[b]] })
	sorted := make([]K, len(ks))
	for i, j := range idx {
		sorted[i] = ks[j]
	}
	Sites[site]++
	if Choose != nil {
		if p := Choose(site, len(sorted)); p != nil {
			out := make([]K, len(sorted))
			for i, j := range p {
				out[i] = sorted[j]
			}
			return out
		}
	}
	return sorted
}

// Order iterates like the language does: an entry removed before it is
// reached is skipped, the value is read when the key is produced, entries
// inserted during the iteration are not visited (the language allows that).
func Order[M ~map[K]V, K comparable, V any](m M, site string) iter.Seq2[K, V] {
	return func(yield func(K, V) bool) {
		for _, k := range keys(m, site) {
			v, ok := m[k]
			if !ok {
				continue
			}
			if !yield(k, v) {
				return
			}
		}
	}
}

func Keys[M ~map[K]V, K comparable, V any](m M, site string) iter.Seq[K] {
	return func(yield func(K) bool) {
		for _, k := range keys(m, site) {
			if _, ok := m[k]; !ok {
				continue
			}
			if !yield(k) {
				return
			}
		}
	}
}

func Values[M ~map[K]V, K comparable, V any](m M, site string) iter.Seq[V] {
	return func(yield func(V) bool) {
		for _, k := range keys(m, site) {
			v, ok := m[k]
			if !ok {
				continue
			}
			if !yield(v) {
				return
			}
		}
	}
}
`

func main() {
	if len(os.Args) != 2 {
		fmt.Fprintln(os.Stderr, "usage: maporder DIR")
		os.Exit(2)
	}
	dir := os.Args[1]
	modPath := "github.com/hknutzen/Netspoc-Approve/go"
	vm := filepath.Join(dir, "pkg", "verifmap")
	os.MkdirAll(vm, 0755)
	if err := os.WriteFile(filepath.Join(vm, "verifmap.go"), []byte(verifmapSrc), 0644); err != nil {
		fmt.Fprintln(os.Stderr, err)
		os.Exit(2)
	}
	cfg := &packages.Config{
		Mode: packages.NeedName | packages.NeedFiles | packages.NeedSyntax | packages.NeedTypes |
			packages.NeedTypesInfo | packages.NeedImports | packages.NeedDeps | packages.NeedCompiledGoFiles,
		Dir:        dir,
		BuildFlags: []string{"-tags=verif", "-mod=mod"},
		Env:        append(os.Environ(), "GOFLAGS=-mod=mod", "GOPROXY=off", "GOSUMDB=off"),
	}
	pkgs, err := packages.Load(cfg, "./pkg/...", "./cmd/...")
	if err != nil {
		fmt.Fprintln(os.Stderr, "load:", err)
		os.Exit(2)
	}
	if packages.PrintErrors(pkgs) > 0 {
		os.Exit(2)
	}
	sites := 0
	for _, p := range pkgs {
		if p.PkgPath == modPath+"/pkg/verifmap" {
			continue
		}
		for _, f := range p.Syntax {
			fname := p.Fset.File(f.Pos()).Name()
			changed := false
			isMap := func(e ast.Expr) bool {
				t := p.TypesInfo.TypeOf(e)
				if t == nil {
					return false
				}
				_, ok := t.Underlying().(*types.Map)
				return ok
			}
			site := func(pos token.Pos) *ast.BasicLit {
				ps := p.Fset.Position(pos)
				fn := ""
				path, _ := astutil.PathEnclosingInterval(f, pos, pos)
				for _, n := range path {
					if fd, ok := n.(*ast.FuncDecl); ok {
						fn = fd.Name.Name
						break
					}
				}
				s := fmt.Sprintf("%s/%s:%s:%d", p.Name, filepath.Base(ps.Filename), fn, ps.Line)
				return &ast.BasicLit{Kind: token.STRING, Value: strconv.Quote(s)}
			}
			call := func(fn string, m ast.Expr, pos token.Pos) ast.Expr {
				return &ast.CallExpr{
					Fun:  &ast.SelectorExpr{X: ast.NewIdent("verifmap"), Sel: ast.NewIdent(fn)},
					Args: []ast.Expr{m, site(pos)},
				}
			}
			astutil.Apply(f, func(c *astutil.Cursor) bool {
				switch n := c.Node().(type) {
				case *ast.RangeStmt:
					if isMap(n.X) {
						n.X = call("Order", n.X, n.Pos())
						changed = true
						sites++
					}
				case *ast.CallExpr:
					if sel, ok := n.Fun.(*ast.SelectorExpr); ok && len(n.Args) == 1 {
						if id, ok := sel.X.(*ast.Ident); ok {
							if pn, ok := p.TypesInfo.Uses[id].(*types.PkgName); ok &&
								pn.Imported().Path() == "maps" && isMap(n.Args[0]) {
								switch sel.Sel.Name {
								case "Keys":
									c.Replace(call("Keys", n.Args[0], n.Pos()))
									changed = true
									sites++
								case "Values":
									c.Replace(call("Values", n.Args[0], n.Pos()))
									changed = true
									sites++
								case "All":
									c.Replace(call("Order", n.Args[0], n.Pos()))
									changed = true
									sites++
								}
							}
						}
					}
				}
				return true
			}, nil)
			if !changed {
				continue
			}
			astutil.AddImport(p.Fset, f, modPath+"/pkg/verifmap")
			// "maps" may have become unused.
			if !astutil.UsesImport(f, "maps") {
				astutil.DeleteImport(p.Fset, f, "maps")
			}
			var buf bytes.Buffer
			if err := format.Node(&buf, p.Fset, f); err != nil {
				fmt.Fprintln(os.Stderr, "format", fname, err)
				os.Exit(2)
			}
			if err := os.WriteFile(fname, buf.Bytes(), 0644); err != nil {
				fmt.Fprintln(os.Stderr, err)
				os.Exit(2)
			}
		}
	}
	fmt.Printf("maporder: %d sites rewritten\n", sites)
}
