package prop

import (
	"fmt"
	"regexp"
	"sort"
	"strings"

	"verif/gen"
	"verif/sim/cisco"
	"verif/sim/linuxdev"
	"verif/sim/nsxdev"
	"verif/sim/panosdev"
	"verif/sim/tape"
)

// mEntry is one entry of one part of the target.
type mEntry struct {
	Part   string // "v4", "v6", "raw"
	Idx    int    // position inside its part
	Text   string // unique text
	Permit bool
	Raw    bool
	App    bool // behind the APPEND marker
}

// checkMerge applies the constraints of the statement to the materialised
// order of one ACL / chain / rulebase.
//   - every entry of every part exactly once, nothing else
//   - relative order inside each part preserved
//   - raw entries (not APPEND) precede all Netspoc entries
//   - APPEND entries follow the last permitting Netspoc entry and precede the
//     trailing deny/drop entries of the Netspoc parts
func checkMerge(parts []mEntry, got []string, ordered bool) (constraint, part, msg string) {
	byText := map[string]mEntry{}
	for _, e := range parts {
		byText[e.Text] = e
	}
	count := map[string]int{}
	for _, g := range got {
		if _, ok := byText[g]; !ok {
			return "foreign-entry", "?", fmt.Sprintf("effective target holds an entry no part has: %q", g)
		}
		count[g]++
	}
	for _, e := range parts {
		switch count[e.Text] {
		case 1:
		case 0:
			return "silent-drop", e.Part, fmt.Sprintf("entry %q of part %s is missing in the effective target and nothing was reported", e.Text, e.Part)
		default:
			return "duplicated", e.Part, fmt.Sprintf("entry %q of part %s appears %d times", e.Text, e.Part, count[e.Text])
		}
	}
	if !ordered {
		return "", "", ""
	}
	pos := map[string]int{}
	for i, g := range got {
		pos[g] = i
	}
	last := map[string]mEntry{}
	for _, g := range got {
		e := byText[g]
		if p, ok := last[e.Part]; ok && p.Idx > e.Idx {
			return "part-order", e.Part, fmt.Sprintf("entries of part %s are reordered: %q comes before %q", e.Part, p.Text, e.Text)
		}
		last[e.Part] = e
	}
	firstNetspoc, lastPermit := len(got), -1
	for i, g := range got {
		e := byText[g]
		if !e.Raw {
			if i < firstNetspoc {
				firstNetspoc = i
			}
			if e.Permit {
				lastPermit = i
			}
		}
	}
	for _, e := range parts {
		if e.Raw && !e.App && pos[e.Text] > firstNetspoc {
			return "raw-behind-netspoc", "raw", fmt.Sprintf("raw entry %q comes behind a Netspoc entry", e.Text)
		}
		if e.App && pos[e.Text] < lastPermit {
			return "append-before-last-permit", "raw", fmt.Sprintf("APPEND entry %q comes before the last permitting Netspoc entry", e.Text)
		}
	}
	for _, e := range parts {
		if e.App {
			// trailing deny entries: Netspoc entries behind the last Netspoc permit.
			for i := lastPermit + 1; i < pos[e.Text]; i++ {
				if x := byText[got[i]]; !x.Raw {
					return "append-behind-trailing-deny", "raw", fmt.Sprintf("APPEND entry %q comes behind the trailing deny entry %q", e.Text, x.Text)
				}
			}
		}
	}
	return "", "", ""
}

// judgeMerge adds the last sentence of the statement: a raw entry may be
// missing if the tool said so.
func judgeMerge(parts []mEntry, got []string, ordered bool, stderr string) (string, string, string) {
	k, part, msg := checkMerge(parts, got, ordered)
	if k == "silent-drop" && part == "raw" && strings.Contains(stderr, "WARNING>>>") {
		// Announced.  Everything else must still be right.
		var p2 []mEntry
		for _, e := range parts {
			if !e.Raw {
				p2 = append(p2, e)
			}
		}
		return checkMerge(p2, got, ordered)
	}
	return k, part, msg
}

var drcSuffix = regexp.MustCompile(`-DRC-\d+`)

func c18Run(c *Ctx, tp *tape.Tape, _ map[string]any) *Failure {
	switch tp.Next(5) {
	case 0:
		return c18Cisco(c, tp, "ASA")
	case 1:
		return c18Cisco(c, tp, "IOS")
	case 2:
		return c18Linux(c, tp)
	case 3:
		return c18Pan(c, tp)
	}
	return c18Nsx(c, tp)
}

// genPart draws n entries with unique texts; permits first, then denies.
func c18ACEs(tp *tape.Tape, kind, part string, n, nDeny int, v6 bool, uniq *int) []mEntry {
	var l []mEntry
	for i := 0; i < n+nDeny; i++ {
		*uniq++
		permit := i < n
		act := "deny"
		if permit {
			act = "permit"
		}
		var text string
		switch {
		case v6:
			text = fmt.Sprintf("%s tcp host 1000::abcd:1:%x any6 eq %d", act, *uniq, 1000+*uniq)
		case kind == "ASA":
			text = fmt.Sprintf("%s tcp host 10.1.%d.%d any4 eq %d", act, *uniq/200, *uniq%200+1, 1000+*uniq)
		default:
			text = fmt.Sprintf("%s tcp host 10.1.%d.%d any eq %d", act, *uniq/200, *uniq%200+1, 1000+*uniq)
		}
		if kind == "ASA" {
			text = "extended " + text
		}
		l = append(l, mEntry{Part: part, Idx: i, Text: text, Permit: permit})
	}
	return l
}

func c18Cisco(c *Ctx, tp *tape.Tape, kind string) *Failure {
	uniq := 0
	aclName := "inside_in"
	iface := "inside"
	if kind == "IOS" {
		aclName, iface = "Ethernet1_in", "Ethernet1"
	}
	v4 := c18ACEs(tp, kind, "v4", tp.Next(4), tp.Next(3), false, &uniq)
	if len(v4) == 0 || tp.Next(3) == 0 {
		// the final deny of Netspoc
		e := mEntry{Part: "v4", Idx: len(v4)}
		if kind == "ASA" {
			e.Text = "extended deny ip any4 any4"
		} else {
			e.Text = "deny ip any any"
		}
		v4 = append(v4, e)
	}
	var v6 []mEntry
	if kind == "ASA" && tp.Next(2) == 0 {
		v6 = c18ACEs(tp, kind, "v6", 1+tp.Next(3), tp.Next(2), true, &uniq)
		if tp.Next(2) == 0 {
			v6 = append(v6, mEntry{Part: "v6", Idx: len(v6), Text: "extended deny ip any6 any6"})
		}
	}
	var raw []mEntry
	withRaw := tp.Next(4) != 0
	nApp := 0
	if withRaw {
		raw = c18ACEs(tp, kind, "raw", tp.Next(3), tp.Next(2), false, &uniq)
		pre := len(raw)
		app := c18ACEs(tp, kind, "raw", tp.Next(2), tp.Next(3), false, &uniq)
		nApp = len(app)
		for _, e := range app {
			e.Idx += pre
			e.App = true
			raw = append(raw, e)
		}
		for i := range raw {
			raw[i].Raw = true
		}
		if len(raw) == 0 {
			withRaw = false
		}
	}
	// What makes the raw part hard or impossible to merge.
	const (
		tNone = iota
		tOtherName
		tUnbound
		tDouble
		tUnknownCmd
		tGroupClash
		tGroup
	)
	trouble := tNone
	if withRaw && tp.Next(3) == 0 {
		trouble = 2 + tp.Next(5)
		if kind == "IOS" && trouble >= tGroupClash {
			// No object-groups on IOS in this tool.
			trouble = tUnbound
		}
	}
	rawName := aclName
	if kind == "IOS" || tp.Next(2) == 0 {
		rawName = aclName + "x"
	}
	group := func(name, ip string) string {
		if kind == "ASA" {
			return fmt.Sprintf("object-group network %s\n network-object host %s\n", name, ip)
		}
		return fmt.Sprintf("object-group network %s\n host %s\n", name, ip)
	}
	pre4, preRaw := "", ""
	if trouble == tGroup || trouble == tGroupClash {
		// First raw line uses a group defined in raw.
		uniq++
		e := &raw[0]
		act := "deny"
		if e.Permit {
			act = "permit"
		}
		if kind == "ASA" {
			e.Text = fmt.Sprintf("extended %s tcp object-group g1 any4 eq %d", act, 1000+uniq)
		} else {
			e.Text = fmt.Sprintf("%s tcp object-group g1 any eq %d", act, 1000+uniq)
		}
		preRaw = group("g1", "1.1.1.1")
		if trouble == tGroupClash {
			pre4 = group("g1", "2.2.2.2")
			// ... and Netspoc uses its own g1.
			uniq++
			if kind == "ASA" {
				v4[0].Text = fmt.Sprintf("extended permit tcp object-group g1 any4 eq %d", 1000+uniq)
			} else {
				v4[0].Text = fmt.Sprintf("permit tcp object-group g1 any eq %d", 1000+uniq)
			}
			v4[0].Permit = true
			// keep "permits first": move it to the front is not needed, v4[0] is first.
		}
	}
	render := func(l []mEntry, name string, app bool) string {
		var b strings.Builder
		for _, e := range l {
			if e.App != app {
				continue
			}
			if kind == "ASA" {
				fmt.Fprintf(&b, "access-list %s %s\n", name, e.Text)
			} else {
				fmt.Fprintf(&b, " %s\n", e.Text)
			}
		}
		return b.String()
	}
	files := map[string]string{}
	if kind == "ASA" {
		bind := func(n, dir string) string { return fmt.Sprintf("access-group %s %s interface %s\n", n, dir, iface) }
		files["router"] = pre4 + render(v4, aclName, false) + bind(aclName, "in")
		if v6 != nil {
			files["ipv6/router"] = render(v6, aclName, false) + bind(aclName, "in")
		}
		if withRaw {
			s := preRaw + render(raw, rawName, false)
			if nApp > 0 {
				s += "[APPEND]\n" + render(raw, rawName, true)
			}
			switch trouble {
			case tUnbound:
			case tDouble:
				s += bind(rawName, "in") + bind(rawName, "out")
			case tUnknownCmd:
				s += "unexpected foo\n" + bind(rawName, "in")
			default:
				s += bind(rawName, "in")
			}
			files["router.raw"] = s
		}
	} else {
		intf := func(binds ...string) string {
			s := "interface " + iface + "\n"
			for _, b := range binds {
				s += " " + b + "\n"
			}
			return s
		}
		files["router"] = pre4 + "ip access-list extended " + aclName + "\n" + render(v4, "", false) +
			intf("ip address 10.0.6.1 255.255.255.0", "ip access-group "+aclName+" in")
		if withRaw {
			// The same raw ACL may be written in several blocks.
			head := "ip access-list extended " + rawName + "\n"
			s := preRaw + head
			nPre := len(raw) - nApp
			if cut := tp.Next(3); cut > 0 && nPre >= 2 {
				var a, b []mEntry
				for _, e := range raw[:nPre] {
					if e.Idx < nPre/2 {
						a = append(a, e)
					} else {
						b = append(b, e)
					}
				}
				s += render(a, "", false) + head + render(b, "", false)
			} else {
				s += render(raw, "", false)
			}
			if nApp > 0 {
				s += "[APPEND]\n"
				if tp.Next(2) == 1 {
					s += head
				}
				s += render(raw, "", true)
			}
			switch trouble {
			case tUnbound:
			case tDouble:
				s += intf("ip access-group "+rawName+" in", "ip access-group "+rawName+" out")
			case tUnknownCmd:
				s += "unexpected foo\n" + intf("ip access-group "+rawName+" in")
			default:
				s += intf("ip access-group " + rawName + " in")
			}
			files["router.raw"] = s
		}
	}
	// Empty device: the interface only.
	dev := &cisco.Conf{Kind: kind, Hostname: "router"}
	if kind == "ASA" {
		dev.Objs = append(dev.Objs, &cisco.Obj{Head: "interface Ethernet0/1", Mode: true, Subs: []string{"nameif inside"}})
	} else {
		dev.Objs = append(dev.Objs, &cisco.Obj{Head: "interface Ethernet1", Mode: true, Subs: []string{"ip address 10.0.6.1 255.255.255.0"}})
	}
	p := c.PlanCompare(kind, cisco.Print(dev, nil), files)
	in := map[string]any{"files": files, "stderr": strings.Split(p.Stderr, "\n"), "script": scriptText(p.Script), "trouble": trouble}
	fail := func(k, part, msg string) *Failure {
		return &Failure{Key: fmt.Sprintf("%s|%s|%s", kind, k, part), Msg: msg, Input: in}
	}
	c.Count(fmt.Sprintf("%s:trouble=%d", kind, trouble), 1)
	if p.Panic != "" {
		return fail("tool-panic", panicFunc(p.Panic), firstLine(p.Panic))
	}
	if p.Exit != 0 {
		c.Count("not_accepted", 1)
		c.Count("not_accepted:"+firstWords(errorLine(p.Stderr), 9), 1)
		return nil
	}
	if trouble == tGroupClash && !strings.Contains(p.Stderr, "WARNING>>>") {
		return fail("name-clash-silent", "raw", "raw and Netspoc define object-group g1 differently; accepted without error or warning")
	}
	n := cisco.NewNode(dev.Clone())
	n.InConfig = true
	for _, cmd := range p.Script {
		if rej, _ := n.Exec(cmd.Line); rej != "" {
			return fail("script-rejected", rejectKind(rej), fmt.Sprintf("command %q of the script onto the empty device is rejected: %s", cmd.Line, rej))
		}
	}
	// Ordered: the ACL bound inbound to the interface.  Exactly once: all ACLs.
	sc := &cisco.Scope{Kind: kind, Ifaces: map[string]bool{iface: true}, RouteFams: map[string]bool{}}
	norm := func(t string) string { return drcSuffix.ReplaceAllString(cisco.NormACE(kind, t), "") }
	var got []string
	bound := ""
	for b, name := range bindings(n.Conf, sc) {
		if b.dir == "in" {
			bound = name
		}
	}
	for _, acl := range n.Conf.ACLs {
		for _, e := range acl.Entries {
			if acl.Name == bound {
				got = append(got, norm(e.Text))
			}
		}
	}
	for _, acl := range n.Conf.ACLs {
		for _, e := range acl.Entries {
			if acl.Name != bound {
				got = append(got, norm(e.Text))
			}
		}
	}
	var parts []mEntry
	for _, l := range [][]mEntry{v4, v6, raw} {
		for _, e := range l {
			e.Text = norm(e.Text)
			parts = append(parts, e)
		}
	}
	if trouble == tUnknownCmd {
		parts = append(parts, mEntry{Part: "raw", Idx: len(raw), Raw: true, App: nApp > 0, Text: "unexpected foo"})
	}
	c.NonTrivial(fmt.Sprint(files))
	c.Sample(map[string]any{"kind": kind, "files": files, "effective_acl": got})
	in["effective_acl"] = got
	if k, part, msg := judgeMerge(parts, got, true, p.Stderr); k != "" {
		return fail(k, part, msg)
	}
	return nil
}

func c18Linux(c *Ctx, tp *tape.Tape) *Failure {
	uniq := 0
	mk := func(part, chain string, n, nDrop int, raw, app bool, idx0 int) []mEntry {
		var l []mEntry
		for i := 0; i < n+nDrop; i++ {
			uniq++
			tgt := "ACCEPT"
			if i >= n {
				tgt = "DROP"
			}
			l = append(l, mEntry{Part: part, Idx: idx0 + i, Permit: i < n, Raw: raw, App: app,
				Text: fmt.Sprintf("-A %s -j %s -s 10.1.%d.%d -p tcp --dport %d", chain, tgt, uniq/200, uniq%200+1, 1000+uniq)})
		}
		return l
	}
	v4 := mk("v4", "INPUT", tp.Next(4), tp.Next(3), false, false, 0)
	raw := mk("raw", "INPUT", tp.Next(4), tp.Next(2), true, false, 0)
	raw = append(raw, mk("raw", "INPUT", tp.Next(3), tp.Next(3), true, true, len(raw))...)
	if len(raw) == 0 {
		raw = mk("raw", "INPUT", 2, 0, true, false, 0)
	}
	const (
		tNone = iota
		tRedefine
		tOwnChain
		tGarbage
	)
	trouble := tNone
	if tp.Next(3) == 0 {
		trouble = 1 + tp.Next(3)
	}
	render := func(l []mEntry, app bool) string {
		var b strings.Builder
		for _, e := range l {
			if e.App == app {
				b.WriteString(e.Text + "\n")
			}
		}
		return b.String()
	}
	head4, headRaw := "*filter\n:INPUT DROP\n", "*filter\n:INPUT DROP\n"
	var c1, c1raw []mEntry
	switch trouble {
	case tRedefine:
		head4 += ":c1 -\n"
		headRaw += ":c1 -\n"
		c1 = mk("v4", "c1", 2, 0, false, false, 0)
		c1raw = mk("raw", "c1", 1, 0, true, false, 0)
	case tOwnChain:
		headRaw += ":c2 -\n"
		c1raw = mk("raw", "c2", 2, 1, true, false, 0)
	}
	files := map[string]string{
		"router":     head4 + render(c1, false) + render(v4, false) + "COMMIT\n",
		"router.raw": headRaw + render(c1raw, false) + render(raw, false),
	}
	if s := render(raw, true); s != "" {
		files["router.raw"] += "[APPEND]\n" + s
	}
	if trouble == tGarbage {
		files["router.raw"] += "-A INPUT --frobnicate\n"
	}
	p := c.PlanCompare("Linux", "", files)
	in := map[string]any{"files": files, "stderr": strings.Split(p.Stderr, "\n"), "output": strings.Split(p.Stdout, "\n"), "trouble": trouble}
	fail := func(k, part, msg string) *Failure {
		return &Failure{Key: fmt.Sprintf("Linux|%s|%s", k, part), Msg: msg, Input: in}
	}
	c.Count(fmt.Sprintf("Linux:trouble=%d", trouble), 1)
	if p.Panic != "" {
		return fail("tool-panic", panicFunc(p.Panic), firstLine(p.Panic))
	}
	if p.Exit != 0 {
		c.Count("not_accepted", 1)
		c.Count("not_accepted:"+firstWords(errorLine(p.Stderr), 9), 1)
		return nil
	}
	_, body, ok := strings.Cut(p.Stdout, "# Generated by NetSPoC\n")
	if !ok {
		return fail("no-ruleset", "?", "no iptables-restore file in the output")
	}
	rs, err := linuxdev.ParseRestore(body)
	if err != nil {
		return fail("ruleset-unloadable", "?", err.Error())
	}
	canon := func(e mEntry) (string, string) {
		r, err := linuxdev.ParseRestore("*filter\n:INPUT DROP\n:c1 -\n:c2 -\n" + e.Text + "\nCOMMIT\n")
		if err != nil {
			return "?", e.Text
		}
		for _, ch := range r.Tables[0].Chains {
			if len(ch.Rules) > 0 {
				return ch.Name, ch.Rules[0].Canon()
			}
		}
		return "?", e.Text
	}
	parts := map[string][]mEntry{}
	for _, l := range [][]mEntry{v4, raw, c1, c1raw} {
		for _, e := range l {
			ch, t := canon(e)
			e.Text = t
			parts[ch] = append(parts[ch], e)
		}
	}
	if trouble == tGarbage {
		parts["INPUT"] = append(parts["INPUT"], mEntry{Part: "raw", Idx: len(raw), Raw: true, App: render(raw, true) != "", Text: "--frobnicate"})
	}
	got := map[string][]string{}
	for _, t := range rs.Tables {
		for _, ch := range t.Chains {
			for _, r := range ch.Rules {
				got[ch.Name] = append(got[ch.Name], r.Canon())
			}
			if _, ok := parts[ch.Name]; !ok && len(ch.Rules) > 0 {
				parts[ch.Name] = nil
			}
		}
	}
	c.NonTrivial(fmt.Sprint(files))
	c.Sample(map[string]any{"kind": "Linux", "files": files, "effective_chains": got})
	in["effective_chains"] = got
	chains := make([]string, 0, len(parts))
	for ch := range parts {
		chains = append(chains, ch)
	}
	sort.Strings(chains)
	for _, ch := range chains {
		if k, part, msg := judgeMerge(parts[ch], got[ch], true, p.Stderr); k != "" {
			return fail(k, part, "chain "+ch+": "+msg)
		}
	}
	return nil
}

func c18Pan(c *Ctx, tp *tape.Tape) *Failure {
	uniq := 0
	vsysNames := []string{"vsys1", "vsys2"}
	type part struct {
		entries map[string][]mEntry
		rules   map[string][]gen.PRule
	}
	newPart := func() *part { return &part{map[string][]mEntry{}, map[string][]gen.PRule{}} }
	// Each part speaks about vsys1, vsys2 or both.
	mk := func(pt *part, vs, name, prefix string, n, nDrop int, raw, app bool) {
		idx0 := len(pt.entries[vs])
		for i := 0; i < n+nDrop; i++ {
			uniq++
			act := "allow"
			if i >= n {
				act = "drop"
			}
			rn := fmt.Sprintf("%s%d", prefix, uniq)
			r := gen.PRule{Name: rn, Action: act, From: "z1", To: "z2", Src: []string{"any"}, Dst: []string{"any"}, Svc: []string{"any"},
				LogEnd: true, Extra: fmt.Sprintf("<description>%s-%s</description>", name, rn), Append: app}
			pt.rules[vs] = append(pt.rules[vs], r)
			pt.entries[vs] = append(pt.entries[vs], mEntry{Part: name, Idx: idx0 + i, Permit: i < n, Raw: raw, App: app, Text: name + "-" + rn})
		}
	}
	p4, p6, praw := newPart(), newPart(), newPart()
	for _, vs := range vsysNames {
		// 0: this part has no entry for the vsys at all.
		if tp.Next(4) != 0 || vs == "vsys1" {
			mk(p4, vs, "v4", "r", tp.Next(4), tp.Next(3), false, false)
		}
		if tp.Next(3) != 0 {
			mk(p6, vs, "v6", "r", tp.Next(3), tp.Next(2), false, false)
		}
		if tp.Next(3) != 0 {
			mk(praw, vs, "raw", "raw", tp.Next(3), tp.Next(2), true, false)
			mk(praw, vs, "raw", "rawapp", tp.Next(3), tp.Next(2), true, true)
		}
	}
	const (
		tNone = iota
		tRuleClash
		tAddrClash
	)
	trouble := tNone
	r4, rraw := p4.rules["vsys1"], praw.rules["vsys1"]
	if len(rraw) > 0 && len(r4) > 0 && tp.Next(4) == 0 {
		trouble = 1 + tp.Next(2)
	}
	var addr4, addrRaw []gen.PAddr
	switch trouble {
	case tRuleClash:
		// A raw rule is named like a Netspoc rule.
		rraw[0].Name = r4[0].Name
	case tAddrClash:
		addr4 = []gen.PAddr{{Name: "IP_10.1.1.10", IP: "10.1.1.10/32"}}
		r4[0].Src = []string{"IP_10.1.1.10"}
		addrRaw = []gen.PAddr{{Name: "IP_10.1.1.10", IP: "10.9.9.9/32"}}
		rraw[0].Src = []string{"IP_10.1.1.10"}
	}
	render := func(pt *part, addrs []gen.PAddr) string {
		var l []*gen.PVsys
		for _, vs := range vsysNames {
			if _, ok := pt.rules[vs]; !ok {
				continue
			}
			v := &gen.PVsys{Name: vs, Display: "managed-by-Netspoc", Rules: pt.rules[vs]}
			if vs == "vsys1" {
				v.Addrs = addrs
			}
			l = append(l, v)
		}
		if len(l) == 0 {
			return ""
		}
		return gen.PanNetspocXML(l)
	}
	files := map[string]string{}
	for name, txt := range map[string]string{"router": render(p4, addr4), "ipv6/router": render(p6, nil), "router.raw": render(praw, addrRaw)} {
		if txt != "" {
			files[name] = txt
		}
	}
	// Empty device: both vsys without rules.
	empty := &gen.PConf{Hostname: "router", Vsys: []*gen.PVsys{{Name: "vsys1", Display: "managed-by-Netspoc"}, {Name: "vsys2", Display: "managed-by-Netspoc"}}}
	cfg, err := panosdev.ParseXML(gen.PanDeviceXML(empty, 0))
	if err != nil {
		c.HarnessError("device xml: %v", err)
		return nil
	}
	node := panosdev.NewNode(cfg.Kids[0])
	r := c.LivePan(files, node, PanOpts{Front: "drc", Timeout: 30})
	in := map[string]any{"files": files, "stderr": strings.Split(r.Res.Stderr, "\n"), "trouble": trouble}
	fail := func(k, part, msg string) *Failure {
		return &Failure{Key: fmt.Sprintf("PAN-OS|%s|%s", k, part), Msg: msg, Input: in, Log: tail(r.Log, 30)}
	}
	c.Count(fmt.Sprintf("PAN-OS:trouble=%d", trouble), 1)
	if r.Res.Panic != "" {
		return fail("tool-panic", panicFunc(r.Res.Panic), firstLine(r.Res.Panic))
	}
	if r.Trouble != "" {
		c.HarnessError("PAN-OS session: %s", r.Trouble)
		return nil
	}
	if r.Res.Exit != 0 {
		c.Count("not_accepted", 1)
		c.Count("not_accepted:"+firstWords(errorLine(r.Res.Stderr), 9), 1)
		return nil
	}
	if trouble == tAddrClash && !strings.Contains(r.Res.Stderr, "WARNING>>>") && !c.NoteKnown("PAN-OS|name-clash-silent|raw") {
		return fail("name-clash-silent", "raw", "raw and Netspoc define address IP_10.1.1.10 differently; accepted without error or warning")
	}
	got := map[string][]string{}
	for _, vs := range panVsysOf(node.Cand) {
		for _, ru := range vs.Path("rulebase", "security", "rules").KidsOf("entry") {
			if dsc := ru.Kid("description", ""); dsc != nil {
				got[vs.Name] = append(got[vs.Name], dsc.Text)
			} else {
				got[vs.Name] = append(got[vs.Name], "name:"+ru.Name)
			}
		}
	}
	c.NonTrivial(fmt.Sprint(files))
	c.Sample(map[string]any{"kind": "PAN-OS", "effective_rulebase": got})
	in["effective_rulebase"] = got
	for _, vs := range vsysNames {
		var parts []mEntry
		for _, pt := range []*part{p4, p6, praw} {
			parts = append(parts, pt.entries[vs]...)
		}
		if k, part, msg := judgeMerge(parts, got[vs], true, r.Res.Stderr); k != "" {
			if trouble == tRuleClash && k == "silent-drop" {
				k = "name-clash-silent"
			}
			if c.NoteKnown(fmt.Sprintf("PAN-OS|%s|%s", k, part)) {
				continue
			}
			return fail(k, part, vs+": "+msg)
		}
	}
	return nil
}

func c18Nsx(c *Ctx, tp *tape.Tape) *Failure {
	uniq := 0
	mkRules := func(part, prefix string, n int) ([]mEntry, []gen.NRule) {
		var l []mEntry
		var rules []gen.NRule
		for i := 0; i < n; i++ {
			uniq++
			id := fmt.Sprintf("%s%d", prefix, uniq)
			r := gen.NRule{ID: id, Action: "ALLOW", Seq: 20, Dir: "OUT", Src: "ANY", Dst: fmt.Sprintf("10.1.1.%d", uniq), Svc: "ANY",
				Scope: "/infra/tier-0s/v1", Proto: "IPV4", Tag: part + "-" + id}
			rules = append(rules, r)
			l = append(l, mEntry{Part: part, Idx: i, Permit: true, Raw: part == "raw", Text: part + "-" + id})
		}
		return l, rules
	}
	e4, r4 := mkRules("v4", "r", 1+tp.Next(3))
	e6, r6 := mkRules("v6", "r", tp.Next(3))
	eraw, rraw := mkRules("raw", "raw", tp.Next(3))
	for i := range r6 {
		r6[i].Proto = "IPV6"
		r6[i].Dst = fmt.Sprintf("1000::abcd:1:%x", i+1)
	}
	rawPolicy := "Netspoc-v1"
	trouble := 0
	if len(rraw) > 0 && tp.Next(4) == 0 {
		trouble = 1 + tp.Next(3)
	}
	var g4, graw []gen.NGroup
	switch trouble {
	case 1: // rule id clash
		rraw[0].ID = r4[0].ID
	case 2: // raw adds a policy of its own
		rawPolicy = "Netspoc-raw"
	case 3: // group id clash
		g4 = []gen.NGroup{{ID: "Netspoc-g1", IPs: []string{"10.1.1.10"}}}
		graw = []gen.NGroup{{ID: "Netspoc-g1", IPs: []string{"10.9.9.9"}}}
		r4[0].Src = gen.NGrp + "Netspoc-g1"
		rraw[0].Src = gen.NGrp + "Netspoc-g1"
	}
	files := map[string]string{"router": (&gen.NConf{Groups: g4, Policies: []gen.NPolicy{{ID: "Netspoc-v1", Rules: r4}}}).NetspocJSON()}
	if len(r6) > 0 {
		files["ipv6/router"] = (&gen.NConf{Policies: []gen.NPolicy{{ID: "Netspoc-v1", Rules: r6}}}).NetspocJSON()
	}
	if len(rraw) > 0 {
		files["router.raw"] = (&gen.NConf{Groups: graw, Policies: []gen.NPolicy{{ID: rawPolicy, Rules: rraw}}}).NetspocJSON()
	}
	node := nsxdev.NewNode()
	r := c.LiveNsx(files, node, PanOpts{Front: "drc", Timeout: 30})
	in := map[string]any{"files": files, "stderr": strings.Split(r.Res.Stderr, "\n"), "trouble": trouble}
	fail := func(k, part, msg string) *Failure {
		return &Failure{Key: fmt.Sprintf("NSX|%s|%s", k, part), Msg: msg, Input: in, Log: tail(r.Log, 30)}
	}
	c.Count(fmt.Sprintf("NSX:trouble=%d", trouble), 1)
	if r.Res.Panic != "" {
		return fail("tool-panic", panicFunc(r.Res.Panic), firstLine(r.Res.Panic))
	}
	if r.Trouble != "" {
		c.HarnessError("NSX session: %s", r.Trouble)
		return nil
	}
	if r.Res.Exit != 0 {
		c.Count("not_accepted", 1)
		c.Count("not_accepted:"+firstWords(errorLine(r.Res.Stderr), 9), 1)
		return nil
	}
	if trouble == 3 && !strings.Contains(r.Res.Stderr, "WARNING>>>") {
		return fail("name-clash-silent", "raw", "raw and Netspoc define group Netspoc-g1 differently; accepted without error or warning")
	}
	var got []string
	for _, p := range node.Policies {
		for _, ru := range p.Rules {
			t, _ := ru["tag"].(string)
			got = append(got, t)
		}
	}
	sort.Strings(got)
	var parts []mEntry
	for _, l := range [][]mEntry{e4, e6, eraw} {
		parts = append(parts, l...)
	}
	c.NonTrivial(fmt.Sprint(files))
	c.Sample(map[string]any{"kind": "NSX", "effective_rules": got})
	in["effective_rules"] = got
	if k, part, msg := judgeMerge(parts, got, false, r.Res.Stderr); k != "" {
		if trouble == 1 && k == "silent-drop" {
			k = "name-clash-silent"
		}
		return fail(k, part, msg)
	}
	return nil
}

func panVsysOf(cfg *panosdev.X) []*panosdev.X {
	var l []*panosdev.X
	if d := cfg.Path("devices"); d != nil {
		for _, e := range d.KidsOf("entry") {
			if v := e.Path("vsys"); v != nil {
				l = append(l, v.KidsOf("entry")...)
			}
		}
	}
	return l
}

func init() { Registry["C18"] = c18Run }
