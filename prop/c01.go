package prop

import (
	"fmt"
	"regexp"
	"strings"

	"verif/gen"
	"verif/sim/cisco"

	"verif/sim/tape"
)

// ciscoPlan is the shared plan-mode run for C01, C02, C07, C08 and C14.
func ciscoPlan(kind, prop string) RunFunc {
	return func(c *Ctx, tp *tape.Tape, _ map[string]any) *Failure {
		var adjust func(*gen.Knobs)
		mode := ""
		if prop == "C14" {
			// Two workloads: Netspoc-shaped ACLs (deny block, permits, final
			// deny), and arbitrary mixes of permit and deny.
			if tp.Next(2) != 0 {
				mode = "shaped|"
				adjust = func(k *gen.Knobs) { k.Shaped, k.NoShare, k.Independent, k.Remarks = true, true, false, false }
			} else {
				mode = "mix|"
				// Concentrate on line edits of few, longer ACLs.
				adjust = func(k *gen.Knobs) {
					k.Clutter, k.Crypto, k.Remarks, k.Independent = false, false, false, false
					k.MaxGroups = 0
					k.MaxIfaces = 1 + k.MaxIfaces%2
					k.MaxLines = 4 + k.MaxLines%7
					k.MaxEdits = 3 + k.MaxEdits%6
				}
			}
		}
		cs := GenCiscoCaseK(tp, kind, adjust)
		dev := printDevice(cs)
		p := c.PlanCompare(kind, dev, cs.Files)
		if p.Panic != "" {
			c.Count("tool_panics", 1)
			return &Failure{Key: kind + "|tool-panic|" + panicFunc(p.Panic),
				Msg: "drc panics on a generated pair: " + firstLine(p.Panic), Input: cs.Input(),
				Log: strings.Split(p.Panic, "\n")}
		}
		if p.Exit != 0 {
			c.Count("not_accepted", 1)
			c.Count("not_accepted:"+firstWords(firstLine(p.Stderr), 4), 1)
			return nil
		}
		c.Count("accepted", 1)
		o := ExecPlan(cs, p, false, prop == "C14")
		if len(p.Script) > 0 {
			c.NonTrivial(dev, cs.Files["router"])
			c.Count("script_commands", len(p.Script))
		} else {
			c.Count("empty_script", 1)
		}
		c.Sample(map[string]any{"device": strings.Split(dev, "\n"),
			"target": strings.Split(cs.Files["router"], "\n"), "script": scriptText(p.Script), "ops": cs.Ops})
		fail := func(key, msg string) *Failure {
			in := cs.Input()
			in["script"] = scriptText(p.Script)
			return &Failure{Key: kind + "|" + key, Msg: msg, Input: in}
		}
		switch prop {
		case "C08":
			if len(o.Rejects) > 0 {
				i := o.RejectAt[0]
				rej := o.Rejects[0]
				k := rejectKind(rej) + "|" + cmdKind(p.Script[i].Line)
				if strings.Contains(rej, " / group-object ") {
					// the object is nested in another object-group
					k += "|nested-by-group-object"
				}
				return fail(k, rej)
			}
		case "C07":
			if len(o.Rejects) > 0 {
				// Judge the frame condition on a device that tolerates the
				// rejected commands (the rejection itself belongs to C08).
				c.Count("rejected_script_rerun_on_tolerant_device", 1)
				o = ExecPlan(cs, p, false, false, true)
			}
			if o.Frame != "" {
				what := "edited"
				if strings.Contains(o.Frame, ": deleted: ") {
					what = "deleted"
				}
				_, obj, _ := strings.Cut(o.Frame, what+": ")
				k := firstWords(obj, 1) + "|" + what
				if f := strings.Fields(obj); len(f) >= 2 && f[0] == "og" && nestedByGroupObject(cs.A, f[1]) {
					k += "|nested-by-group-object"
				}
				return fail(k, o.Frame)
			}
		case "C14":
			if len(o.Rejects) > 0 {
				c.Count("skipped_rejected_script", 1)
				return nil
			}
			if o.StepKey == "harness" {
				c.HarnessError("C14: %s", o.Step)
				return nil
			}
			if o.StepKey != "" {
				return fail(mode+o.StepKey, o.Step)
			}
		default: // C01, C02
			rejected := ""
			if len(o.Rejects) > 0 {
				// The device refused a command and went on with the rest
				// (C08 reports the refusal itself): the result still counts.
				c.Count("scripts_with_rejected_command", 1)
				for _, rej := range o.Rejects {
					// (refused deletions of a group nested by group-object do
					// not touch managed configuration: C08's known finding)
					if !strings.Contains(rej, " / group-object ") {
						rejected = "|after-rejected-command"
					}
				}
			}
			if o.Unchanged != "" {
				return fail("unchanged-but-different|"+diffKind(o.Unchanged),
					"tool reports no change but device differs from target: "+o.Unchanged)
			}
			if o.StateDiff != "" {
				k := "state-differs|" + diffKind(o.StateDiff) + rejected
				if kind == "IOS" && hasRemarks(cs) {
					k += "|acl-with-remarks"
				}
				if kind == "ASA" && hasDupRemarks(cs) {
					k += "|identical-remark-lines"
				}
				return fail(k, "after executing the script: "+o.StateDiff)
			}
			if len(o.Rejects) > 0 {
				return nil
			}
			if msg, p2 := c.Recompare(cs, o.Node.Conf, tp); msg != "" {
				f := fail("recompare-nonempty|"+script2KindOn(p2, o.Node.Conf)+identicalGroupsNote(cs.A, script2KindOn(p2, o.Node.Conf)), msg)
				f.Input["device_after"] = strings.Split(cisco.Print(o.Node.Conf, cs.PO), "\n")
				f.Input["script2"] = scriptText(p2.Script)
				return f
			}
			// Live leg: the same pair through a complete simulated session
			// (login, reload guard on IOS, change, save) with a tape-chosen
			// legal device behaviour, chunking and latency.
			if len(p.Script) > 0 && tp.Next(6) == 0 {
				if f := liveConverge(c, cs, tp, p); f != nil {
					f.Key = kind + "|" + f.Key
					return f
				}
			}
		}
		return nil
	}
}

func printDevice(cs *CiscoCase) string {
	return ciscoPrint(cs)
}

func firstWords(s string, n int) string {
	f := strings.Fields(s)
	if len(f) > n {
		f = f[:n]
	}
	return strings.Join(f, " ")
}

// panicFunc extracts the innermost repo function on a panic stack.
func panicFunc(trace string) string {
	for _, l := range strings.Split(trace, "\n") {
		if i := strings.Index(l, "Netspoc-Approve/go/pkg/"); i >= 0 && !strings.HasPrefix(l, "\t") {
			f := l[i+len("Netspoc-Approve/go/pkg/"):]
			if j := strings.LastIndex(f, "("); j > 0 {
				f = f[:j]
			}
			if strings.Contains(f, "errlog.") || strings.Contains(f, "HandleAbort") || strings.HasPrefix(f, "verifmap.") {
				continue
			}
			// Innermost *named* function: strip closure and range-func suffixes.
			f = closureSfx.ReplaceAllString(f, "")
			return f
		}
	}
	return "?"
}

var closureSfx = regexp.MustCompile(`(\.func\d+|-range\d+|\.\d+)+$`)

func init() {
	Registry["C01"] = ciscoPlan("ASA", "C01")
	Registry["C02"] = ciscoPlan("IOS", "C02")
	for _, p := range []string{"C07", "C08", "C14"} {
		p := p
		Registry[p] = func(c *Ctx, tp *tape.Tape, x map[string]any) *Failure {
			kind := "ASA"
			switch n := tp.Next(8); {
			case n == 7 && p == "C14":
				return c14Linux(c, tp, x)
			case n >= 6 && p != "C14":
				if n == 7 && nsxConverge != nil {
					return nsxConverge(p)(c, tp, x)
				}
				return panConverge(p)(c, tp, x)
			case n%2 == 1:
				kind = "IOS"
			}
			return ciscoPlan(kind, p)(c, tp, x)
		}
	}
	_ = fmt.Sprint
}

// script2Kind classifies what a non-empty second compare still wants, so that
// different causes are different findings.
func script2Kind(p Plan) string {
	if p.Exit != 0 || p.Panic != "" {
		return "rejected"
	}
	onlyDel, onlyRemark := true, true
	first := ""
	for _, c := range p.Script {
		l := c.Line
		switch {
		case strings.HasPrefix(l, "ip access-list resequence "), strings.HasPrefix(l, "ip access-list extended "),
			l == "exit":
			continue
		}
		if first == "" {
			first = cmdKind(l)
		}
		isDel := strings.HasPrefix(l, "no object-group ") || strings.HasPrefix(l, "clear configure ") ||
			strings.HasPrefix(l, "no ip access-list extended ")
		if !isDel {
			onlyDel = false
		}
		f := strings.Fields(l)
		isRemark := (len(f) == 2 && f[0] == "no" && cmdKind(l) == "numbered-ace") ||
			(len(f) > 2 && cmdKind(l) == "numbered-ace" && f[1] == "remark")
		if !isRemark {
			onlyRemark = false
		}
	}
	if !onlyDel && asaGroupSwapOnly(p) {
		return "identical-groups-swap-only"
	}
	switch {
	case onlyDel:
		return "leftover-object-deletion-only"
	case onlyRemark:
		return "remark-move-only"
	}
	return "other:" + first
}

func hasRemarks(cs *CiscoCase) bool {
	for _, c := range []*cisco.Conf{cs.A, cs.B} {
		for _, a := range c.ACLs {
			for _, e := range a.Entries {
				if strings.HasPrefix(e.Text, "remark ") {
					return true
				}
			}
		}
	}
	return false
}

// nsxConverge is set by the NSX checks when they are compiled in.
var nsxConverge func(prop string) RunFunc

// liveConverge runs a full approve session and applies the final-state oracle
// of C01/C02 to the device the session leaves behind.
func liveConverge(c *Ctx, cs *CiscoCase, tp *tape.Tape, p Plan) *Failure {
	lo := DefaultLiveOpts(tp)
	r := c.LiveCisco(cs, lo, tape.Replay(nil))
	c.Count("live_sessions", 1)
	in := cs.Input()
	in["script"] = scriptText(p.Script)
	in["stderr"] = strings.Split(r.Res.Stderr, "\n")
	in["opts"] = fmt.Sprintf("%+v", lo)
	fail := func(key, msg string) *Failure {
		return &Failure{Key: "live|" + key, Msg: msg, Input: in, Log: tail(r.Log, 60)}
	}
	if r.Trouble != "" {
		c.HarnessError("live session: %s", r.Trouble)
		return nil
	}
	if r.Res.Panic != "" {
		return fail("tool-panic|"+panicFunc(r.Res.Panic), firstLine(r.Res.Panic))
	}
	if r.Res.Exit != 0 {
		// The statement speaks about executed scripts; a session that fails
		// (and says so) is the subject of C09, not of this property.
		c.Count("live_session_failed", 1)
		c.Count("live_session_failed:"+firstWords(errorLine(r.Res.Stderr+r.RunLog), 5), 1)
		return nil
	}
	for _, t := range r.Transcr {
		if t.Reject != "" {
			return fail("command-rejected|"+rejectKind(t.Reject), fmt.Sprintf("device rejected %q: %s, yet approve exits 0", t.Line, t.Reject))
		}
	}
	sc := cisco.ScopeOf(cs.B)
	if d := cisco.DiffCanon(cisco.Canon(r.Dev.Node.Conf, sc), cisco.Canon(cs.B, sc)); d != "" {
		return fail("state-differs|"+diffKind(d), "after the approve session: "+d)
	}
	if !r.Dev.RunningEqualsStartup() {
		return fail("not-saved", "approve exits 0 but the running configuration was not saved")
	}
	if lo.Front == "do-approve" && (r.Status == nil || r.Status.Approve.Result != "OK") {
		return fail("status-not-ok", "approve exits 0 but the status file does not say OK")
	}
	// The plan of drc FILE1 FILE2 and the commands of the session agree.
	var live []string
	for _, t := range r.Transcr {
		if t.Class == "change" {
			live = append(live, t.Line)
		}
	}
	var plan []string
	for _, cmd := range p.Script {
		plan = append(plan, cmd.Line)
	}
	if strings.Join(live, "\n") != strings.Join(plan, "\n") {
		c.Count("plan_vs_live_diff", 1)
	}
	return nil
}

var asaLineRE = regexp.MustCompile(` line \d+ `)
var drcTagRE = regexp.MustCompile(`-DRC-\d+`)

// asaGroupSwapOnly: the script only replaces ACL lines by the same lines with
// another generated name of an (identical) object-group, and deletes objects.
func asaGroupSwapOnly(p Plan) bool {
	adds, dels := map[string]int{}, map[string]int{}
	n := 0
	for _, c := range p.Script {
		l := c.Line
		switch {
		case strings.HasPrefix(l, "no object-group "), strings.HasPrefix(l, "clear configure "):
			continue
		case strings.HasPrefix(l, "no access-list "):
			dels[cisco.NormACE("ASA", drcTagRE.ReplaceAllString(asaLineRE.ReplaceAllString(strings.TrimPrefix(l, "no "), " "), ""))]++
		case strings.HasPrefix(l, "access-list "):
			adds[cisco.NormACE("ASA", drcTagRE.ReplaceAllString(asaLineRE.ReplaceAllString(l, " "), ""))]++
		default:
			return false
		}
		n++
	}
	if n == 0 || len(adds) != len(dels) {
		return false
	}
	for k, v := range adds {
		if dels[k] != v || !strings.Contains(k, "object-group ") {
			return false
		}
	}
	return true
}

var iosNumRE = regexp.MustCompile(`^\d+ `)
var asaHeadRE = regexp.MustCompile(`^access-list \S+ line \d+ `)

// script2KindOn refines script2Kind with the device the script is meant for:
// "log-option-only" if every added ACL line is on the device already but for
// its log option and everything else deletes numbered lines.
func script2KindOn(p Plan, dev *cisco.Conf) string {
	k := script2Kind(p)
	if !strings.HasPrefix(k, "other:") || dev == nil {
		return k
	}
	have := map[string]map[string]bool{} // key without log -> full spellings
	for _, a := range dev.ACLs {
		for _, e := range a.Entries {
			kk := cisco.AceKey(dev.Kind, e.Text)
			if have[kk] == nil {
				have[kk] = map[string]bool{}
			}
			have[kk][cisco.NormACE(dev.Kind, e.Text)] = true
		}
	}
	logOnly, moved, dels := 0, 0, 0
	for _, c := range p.Script {
		l := c.Line
		switch {
		case strings.HasPrefix(l, "ip access-list resequence "), strings.HasPrefix(l, "ip access-list extended "), l == "exit":
		case strings.HasPrefix(l, "no access-list "), strings.HasPrefix(l, "no ") && iosNumRE.MatchString(strings.TrimPrefix(l, "no ")+" "):
			dels++
		case iosNumRE.MatchString(l), asaHeadRE.MatchString(l):
			t := iosNumRE.ReplaceAllString(l, "")
			t = asaHeadRE.ReplaceAllString(t, "")
			m := have[cisco.AceKey(dev.Kind, t)]
			switch {
			case m == nil:
				return k
			case m[cisco.NormACE(dev.Kind, t)]:
				moved++ // the very line is on the device: it only changes its place
			default:
				logOnly++
			}
		default:
			return k
		}
	}
	switch {
	case logOnly > 0 && moved == 0:
		return "log-option-only"
	case dev.Kind == "IOS" && moved > 0 && logOnly == 0 && dels == moved:
		// IOS only: on ASA the order of lines always matters.
		return "existing-line-move-only"
	}
	return k
}

// identicalGroupsNote separates the known "two identical groups on the device"
// family from a left-over group that arises without such a pair on the device
// the run started from.
func identicalGroupsNote(start *cisco.Conf, kind string) string {
	if kind != "leftover-object-deletion-only" || start == nil {
		return ""
	}
	seen := map[string]bool{}
	for _, o := range start.Objs {
		if o.Opaque || !strings.HasPrefix(o.Head, "object-group ") {
			continue
		}
		m := append([]string(nil), o.Subs...)
		sortStrings(m)
		f := strings.Fields(o.Head)
		k := f[1] + ":" + strings.Join(m, ",")
		if seen[k] {
			return ""
		}
		seen[k] = true
	}
	return "|device-had-no-identical-groups"
}

func sortStrings(l []string) {
	for i := range l {
		for j := i + 1; j < len(l); j++ {
			if l[j] < l[i] {
				l[i], l[j] = l[j], l[i]
			}
		}
	}
}

// nestedByGroupObject: some object-group of the device lists name as group-object.
func nestedByGroupObject(c *cisco.Conf, name string) bool {
	for _, o := range c.Objs {
		if o.Opaque || !strings.HasPrefix(o.Head, "object-group ") {
			continue
		}
		for _, s := range o.Subs {
			if s == "group-object "+name {
				return true
			}
		}
	}
	return false
}

// hasDupRemarks: some ACL of device or target holds the same remark text twice.
func hasDupRemarks(cs *CiscoCase) bool {
	for _, c := range []*cisco.Conf{cs.A, cs.B} {
		for _, a := range c.ACLs {
			seen := map[string]bool{}
			for _, e := range a.Entries {
				if strings.HasPrefix(e.Text, "remark ") {
					if seen[e.Text] {
						return true
					}
					seen[e.Text] = true
				}
			}
		}
	}
	return false
}
