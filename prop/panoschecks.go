package prop

import (
	"fmt"
	"strings"
	"time"

	"verif/gen"
	"verif/sim/panosdev"
	"verif/sim/tape"
)

var panFaultKinds = []string{"status-500", "transport-error", "client-timeout", "malformed-body", "status-error", "wrong-root", "empty-body"}

func panChangedCase(c *Ctx, tp *tape.Tape) *PanCase {
	for i := 0; i < 4; i++ {
		cs := GenPanCase(tp)
		if len(cs.Ops) > 0 {
			return cs
		}
	}
	return GenPanCase(tp)
}

func panFaultExtra(f *panosdev.Fault) map[string]any {
	if f == nil {
		return map[string]any{"fault": map[string]any{"at": 0, "kind": "none"}}
	}
	return map[string]any{"fault": map[string]any{"at": f.At, "kind": f.Kind}}
}

// judgePanFault: C09 on the HTTP dialogue.
func judgePanFault(r *PanResult, o PanOpts, f panosdev.Fault, approve bool) (key, msg string) {
	pre := "PAN-OS|" + o.Front + "|"
	n := r.Node
	if r.Trouble != "" {
		return pre + "no-exit|" + f.Kind, r.Trouble
	}
	if r.Res.Panic != "" {
		return pre + "panic|" + f.Kind + "|" + panicFunc(r.Res.Panic), firstLine(r.Res.Panic)
	}
	if n.FaultSeq < 0 {
		return "", ""
	}
	phase := "?"
	for _, rec := range n.Transcr {
		if rec.Fault != "" {
			phase = rec.Class
			break
		}
	}
	sfx := phase + "|" + f.Kind
	for _, rec := range n.Transcr {
		if rec.K <= n.FaultK {
			continue
		}
		if rec.Class == "script" {
			return pre + "script-after-fault|" + sfx, fmt.Sprintf("change request %d sent after the device failed at request %d (%s)", rec.K, n.FaultK, f.Kind)
		}
		if rec.Class == "save" {
			return pre + "save-after-fault|" + sfx, fmt.Sprintf("commit sent after the device failed at request %d (%s)", n.FaultK, f.Kind)
		}
	}
	if r.Res.Exit == 0 {
		return pre + "exit-0|" + sfx, fmt.Sprintf("exit status 0 although the device failed at request %d (%s)", n.FaultK, f.Kind)
	}
	if lim := time.Duration(5*o.Timeout+20) * time.Second; r.EndAt > lim+time.Duration(n.JobPend+2)*10*time.Second {
		return pre + "slow-exit|" + sfx, fmt.Sprintf("tool needed %v of simulated time", r.EndAt)
	}
	if o.Front == "do-approve" {
		if r.Status == nil {
			return pre + "status-missing|" + sfx, "no status file written"
		}
		if approve && r.Status.Approve.Result != "FAILED" {
			return pre + "status-wrong|" + sfx, fmt.Sprintf("approve status is %q, expected FAILED", r.Status.Approve.Result)
		}
		if !approve && r.Status.Compare.Result != "DIFF" {
			return pre + "status-wrong|" + sfx, fmt.Sprintf("compare status is %q, expected DIFF", r.Status.Compare.Result)
		}
		if !strings.HasSuffix(strings.TrimSpace(r.History), "END: FAILED") {
			return pre + "no-END-FAILED|" + sfx, "history does not end with END: FAILED"
		}
		if !strings.Contains(r.RunLog, "ERROR>>>") {
			return pre + "no-diagnostic|" + sfx, "run log has no ERROR>>> line"
		}
	} else if !strings.Contains(r.Res.Stderr, "ERROR>>>") {
		return pre + "no-diagnostic|" + sfx, "stderr has no diagnostic"
	}
	return "", ""
}

func judgePanOK(r *PanResult, o PanOpts, approve bool) (key, msg string) {
	pre := "PAN-OS|" + o.Front + "|"
	okRun := r.Res.Exit == 0
	if o.Front == "do-approve" && approve {
		okRun = r.Status != nil && r.Status.Approve.Result == "OK"
		if okRun != (r.Res.Exit == 0) {
			return pre + "status-vs-exit", "status and exit status disagree"
		}
	}
	if !okRun || !approve {
		return "", ""
	}
	scripts := 0
	for _, rec := range r.Node.Transcr {
		if rec.Class == "script" {
			scripts++
			if rec.Reject != "" {
				return pre + "ok-with-rejected-command", "OK reported although the device rejected request " + fmt.Sprint(rec.K) + ": " + rec.Reject
			}
			if rec.Fault != "" {
				return pre + "ok-with-failed-command|" + rec.Fault, "OK reported although request " + fmt.Sprint(rec.K) + " failed"
			}
		}
	}
	if scripts > 0 && r.Node.Cand.String() != r.Node.Running.String() {
		return pre + "ok-without-commit", "OK reported but the candidate configuration is not committed"
	}
	return "", ""
}

func c09Pan(c *Ctx, tp *tape.Tape, extra map[string]any) *Failure {
	cs := panChangedCase(c, tp)
	o := PanOpts{Front: []string{"do-approve", "drc"}[tp.Next(2)], Timeout: []int{60, 10, 30}[tp.Next(3)]}
	approve := tp.Next(4) != 0
	o.Compare = !approve
	pend := tp.Next(4)
	run := func(f *panosdev.Fault, jobFail bool) *PanResult {
		n := cs.Node()
		n.JobPend, n.JobFail = pend, jobFail
		if f != nil && f.Kind != "none" && f.Kind != "job-fail" {
			n.Faults = []panosdev.Fault{*f}
		}
		return c.LivePan(cs.Files, n, o)
	}
	mk := func(key, msg string, r *PanResult, f *panosdev.Fault) *Failure {
		in := cs.Input()
		in["stderr"] = strings.Split(r.Res.Stderr+"\n"+r.RunLog, "\n")
		return &Failure{Key: key, Msg: msg, Input: in, Extra: panFaultExtra(f), Log: tail(r.Log, 60)}
	}
	if extra != nil {
		fm, _ := extra["fault"].(map[string]any)
		f := panosdev.Fault{At: toInt(fm["at"]), Kind: fmt.Sprint(fm["kind"])}
		r := run(&f, f.Kind == "job-fail")
		if f.Kind == "job-fail" {
			saved := false
			for _, rec := range r.Node.Transcr {
				// (see above: only a polled job can have failed)
				if rec.Class == "poll" {
					saved = true
				}
			}
			if saved && r.Res.Exit == 0 {
				return mk("PAN-OS|"+o.Front+"|exit-0|poll|job-fail", "exit status 0 although the commit job failed", r, &f)
			}
			if saved && o.Front == "do-approve" && (r.Status == nil || r.Status.Approve.Result != "FAILED") {
				return mk("PAN-OS|"+o.Front+"|status-wrong|poll|job-fail", "status not FAILED although the commit job failed", r, &f)
			}
			return nil
		}
		if k, m := judgePanFault(r, o, f, approve); k != "" {
			return mk(k, m, r, &f)
		}
		if k, m := judgePanOK(r, o, approve); k != "" {
			return mk(k, m, r, &f)
		}
		return nil
	}
	base := run(nil, false)
	if k, m := judgePanOK(base, o, approve); k != "" && !c.NoteKnown(k) {
		return mk(k, m, base, nil)
	}
	if base.Res.Exit != 0 || base.Trouble != "" || base.Res.Panic != "" {
		c.Count("base_not_accepted", 1)
		return nil
	}
	c.Count("base_runs_panos", 1)
	c.NonTrivial(gen.PanDeviceXML(cs.A, cs.Spell), cs.Files["router"], o.Front, fmt.Sprint(approve))
	if approve {
		f := panosdev.Fault{Kind: "job-fail"}
		r := run(&f, true)
		c.Res.Evaluations++
		saved := false
		for _, rec := range r.Node.Transcr {
			// A commit that is answered with "There are no changes to
			// commit" creates no job: only a polled job can have failed.
			if rec.Class == "poll" {
				saved = true
			}
		}
		if saved && r.Res.Exit == 0 {
			if k := "PAN-OS|" + o.Front + "|exit-0|poll|job-fail"; !c.NoteKnown(k) {
				return mk(k, "exit status 0 although the commit job failed", r, &f)
			}
		}
		if saved && o.Front == "do-approve" && (r.Status == nil || r.Status.Approve.Result != "FAILED") {
			if k := "PAN-OS|" + o.Front + "|status-wrong|poll|job-fail"; !c.NoteKnown(k) {
				return mk(k, "status not FAILED although the commit job failed", r, &f)
			}
		}
	}
	for pi, rec := range base.Node.Transcr {
		for ki, fk := range panFaultKinds {
			if c.Quick && (pi+ki)%3 != len(tp.Rec)%3 {
				continue
			}
			f := panosdev.Fault{At: rec.K, Kind: fk}
			r := run(&f, false)
			c.Res.Evaluations++
			c.Count("faults_fired:"+fk, r.Node.Fired[fk])
			if k, m := judgePanFault(r, o, f, approve); k != "" {
				if !c.NoteKnown(k) {
					return mk(k, m, r, &f)
				}
				continue
			}
			if k, m := judgePanOK(r, o, approve); k != "" && !c.NoteKnown(k) {
				return mk(k, m, r, &f)
			}
			if c.TimeUp() {
				return nil
			}
		}
	}
	return nil
}

func c11Pan(c *Ctx, tp *tape.Tape, extra map[string]any) *Failure {
	cs := panChangedCase(c, tp)
	o := PanOpts{Front: []string{"do-approve", "drc"}[tp.Next(2)], Timeout: 30, Compare: true}
	switch tp.Next(5) {
	case 0:
		cs.A.Vsys[0].Display = "some-firewall"
	case 1:
		cs.A.Hostname = "other"
	}
	before := cs.Node()
	judge := func(r *PanResult) (string, string) {
		pre := "PAN-OS|" + o.Front + "|"
		if r.Trouble != "" {
			return pre + "no-exit", r.Trouble
		}
		if r.Res.Panic != "" {
			return pre + "panic|" + panicFunc(r.Res.Panic), firstLine(r.Res.Panic)
		}
		for _, rec := range r.Node.Transcr {
			if rec.Class == "script" || rec.Class == "save" || rec.Class == "poll" {
				return pre + "sent|" + rec.Class, fmt.Sprintf("compare sent %s request %s", rec.Class, trunc200(unescape(rec.Req)))
			}
		}
		if r.Node.Cand.String() != before.Cand.String() || r.Node.Running.String() != before.Running.String() {
			return pre + "state-changed", "candidate or running configuration differs after compare"
		}
		return "", ""
	}
	run := func(f *panosdev.Fault) *PanResult {
		n := cs.Node()
		if f != nil && f.Kind != "none" {
			n.Faults = []panosdev.Fault{*f}
		}
		return c.LivePan(cs.Files, n, o)
	}
	mk := func(key, msg string, r *PanResult, f *panosdev.Fault) *Failure {
		in := cs.Input()
		in["stderr"] = strings.Split(r.Res.Stderr, "\n")
		return &Failure{Key: key, Msg: msg, Input: in, Extra: panFaultExtra(f), Log: tail(r.Log, 40)}
	}
	if extra != nil {
		fm, _ := extra["fault"].(map[string]any)
		f := panosdev.Fault{At: toInt(fm["at"]), Kind: fmt.Sprint(fm["kind"])}
		r := run(&f)
		if k, m := judge(r); k != "" {
			return mk(k, m, r, &f)
		}
		return nil
	}
	base := run(nil)
	if k, m := judge(base); k != "" && !c.NoteKnown(k) {
		return mk(k, m, base, nil)
	}
	c.NonTrivial(gen.PanDeviceXML(cs.A, cs.Spell), cs.Files["router"], o.Front)
	for _, rec := range base.Node.Transcr {
		for _, fk := range panFaultKinds {
			f := panosdev.Fault{At: rec.K, Kind: fk}
			r := run(&f)
			c.Res.Evaluations++
			if k, m := judge(r); k != "" && !c.NoteKnown(k) {
				return mk(k, m, r, &f)
			}
		}
	}
	return nil
}

func c17Pan(c *Ctx, tp *tape.Tape, extra map[string]any) *Failure {
	cs := GenPanCase(tp)
	o := PanOpts{Front: []string{"do-approve", "drc"}[tp.Next(2)], Timeout: 30, Compare: tp.Next(3) == 0}
	o.Password = genSecret(tp, "PW")
	// API keys are base64 text; the tool puts them into the URL unescaped.
	key := "LUFRPT" + genAlnum(tp, 40) + "=="
	secrets := map[string]string{"password": o.Password, "api-key": key}
	redirect := tp.Next(2) == 0
	run := func(f *panosdev.Fault) *PanResult {
		n := cs.Node()
		n.Key = key
		n.RedirectAPI = redirect
		if f != nil && f.Kind != "none" {
			n.Faults = []panosdev.Fault{*f}
		}
		return c.LivePan(cs.Files, n, o)
	}
	judge := func(r *PanResult, f *panosdev.Fault) (string, string) {
		if r.Trouble != "" {
			return "PAN-OS|no-exit", r.Trouble
		}
		sink, sk := scanSecrets(secrets, r.Files, r.Res.Stdout, r.Res.Stderr)
		if sink == "" {
			return "", ""
		}
		trig := "success"
		if f != nil && f.Kind != "none" {
			phase := "?"
			for _, rec := range r.Node.Transcr {
				if rec.Fault != "" {
					phase = rec.Class
					break
				}
			}
			trig = f.Kind + "@" + phase
		}
		return fmt.Sprintf("PAN-OS|%s|%s|%s", sk, sinkClass(sink), trig), fmt.Sprintf("%s found in %s", sk, sink)
	}
	mk := func(k, m string, r *PanResult, f *panosdev.Fault) *Failure {
		return &Failure{Key: k, Msg: m, Input: map[string]any{"stderr": strings.Split(r.Res.Stderr, "\n"), "password": o.Password, "key": key},
			Extra: panFaultExtra(f), Log: tail(r.Log, 40)}
	}
	if extra != nil {
		fm, _ := extra["fault"].(map[string]any)
		f := panosdev.Fault{At: toInt(fm["at"]), Kind: fmt.Sprint(fm["kind"])}
		r := run(&f)
		if k, m := judge(r, &f); k != "" {
			return mk(k, m, r, &f)
		}
		return nil
	}
	base := run(nil)
	if k, m := judge(base, nil); k != "" && !c.NoteKnown(k) {
		return mk(k, m, base, nil)
	}
	c.NonTrivial(o.Password, key, o.Front)
	for _, rec := range base.Node.Transcr {
		for _, fk := range panFaultKinds {
			f := panosdev.Fault{At: rec.K, Kind: fk}
			r := run(&f)
			c.Res.Evaluations++
			if k, m := judge(r, &f); k != "" && !c.NoteKnown(k) {
				return mk(k, m, r, &f)
			}
			if c.TimeUp() {
				return nil
			}
		}
	}
	return nil
}

// C06 on PAN-OS: hostname x display-name marker x HA state x front end.
func c06Pan(c *Ctx, tp *tape.Tape, extra map[string]any) *Failure {
	cs := panChangedCase(c, tp)
	type combo struct{ front, host, marker, ha string }
	var combos []combo
	for _, fr := range []string{"drc", "do-approve"} {
		for _, h := range []string{"", "other"} {
			for _, m := range []string{"present", "absent", "upper", "none"} {
				for _, ha := range []string{"disabled", "active", "passive", "active-primary", "active-secondary", "suspended", "garbled"} {
					combos = append(combos, combo{fr, h, m, ha})
				}
			}
		}
	}
	if extra != nil {
		combos = []combo{{fmt.Sprint(extra["front"]), fmt.Sprint(extra["host"]), fmt.Sprint(extra["marker"]), fmt.Sprint(extra["ha"])}}
	}
	run := func(cb combo) *PanResult {
		a := *cs.A
		a.Vsys = nil
		for _, v := range cs.A.Vsys {
			nv := *v
			switch cb.marker {
			case "absent":
				nv.Display = "firewall-7"
			case "upper":
				nv.Display = "FW7 NETSPOC managed"
			case "none":
				nv.NoDisplay = true
			}
			a.Vsys = append(a.Vsys, &nv)
		}
		if cb.host != "" {
			a.Hostname = cb.host
		}
		cfg, _ := panosdev.ParseXML(gen.PanDeviceXML(&a, cs.Spell))
		n := panosdev.NewNode(cfg.Kids[0])
		n.HA = cb.ha
		return c.LivePan(cs.Files, n, PanOpts{Front: cb.front, Timeout: 30})
	}
	ref := run(combo{"drc", "", "present", "disabled"})
	nRef := 0
	for _, rec := range ref.Node.Transcr {
		if rec.Class == "script" {
			nRef++
		}
	}
	if ref.Res.Exit == 0 && nRef > 0 {
		c.NonTrivial(gen.PanDeviceXML(cs.A, cs.Spell), cs.Files["router"])
	}
	for _, cb := range combos {
		r := run(cb)
		c.Res.Evaluations++
		condName := "right-device"
		switch {
		case cb.ha == "passive" || cb.ha == "active-secondary" || cb.ha == "suspended" || cb.ha == "garbled":
			condName = "ha-" + cb.ha
		case cb.host != "":
			condName = "wrong-hostname"
		case cb.marker == "absent" || cb.marker == "none":
			condName = "marker-absent"
		}
		fail := func(sym, msg string) *Failure {
			key := fmt.Sprintf("PAN-OS|%s|%s|%s", condName, sym, cb.front)
			if c.NoteKnown(key) {
				return nil
			}
			in := cs.Input()
			in["stderr"] = strings.Split(r.Res.Stderr+r.RunLog, "\n")
			return &Failure{Key: key, Msg: msg, Input: in, Log: tail(r.Log, 40),
				Extra: map[string]any{"front": cb.front, "host": cb.host, "marker": cb.marker, "ha": cb.ha}}
		}
		if r.Trouble != "" || r.Res.Panic != "" {
			if f := fail("panic", r.Trouble+firstLine(r.Res.Panic)); f != nil {
				return f
			}
			continue
		}
		if condName != "right-device" {
			for _, rec := range r.Node.Transcr {
				if rec.Class == "script" || rec.Class == "save" {
					sym := "script-sent"
					if rec.Class == "save" {
						sym = "saved"
					}
					if f := fail(sym, fmt.Sprintf("%s request sent to a device that is %s", rec.Class, condName)); f != nil {
						return f
					}
					break
				}
			}
			if r.Res.Exit == 0 {
				if f := fail("exit-0", "exit status 0"); f != nil {
					return f
				}
			}
			if !strings.Contains(r.Res.Stderr+r.RunLog, "ERROR>>>") {
				if f := fail("no-diagnostic", "no ERROR>>> line"); f != nil {
					return f
				}
			}
			continue
		}
		if ref.Res.Exit == 0 && r.Res.Exit != 0 {
			if f := fail("fails-on-right-device", errorLine(r.Res.Stderr+r.RunLog)); f != nil {
				return f
			}
		}
	}
	return nil
}

func init() {
	wrap3 := func(id string, lxOrCisco RunFunc, pan RunFunc) {
		old := Registry[id]
		_ = lxOrCisco
		Registry[id] = func(c *Ctx, tp *tape.Tape, extra map[string]any) *Failure {
			if tp.Next(5) == 4 {
				return pan(c, tp, extra)
			}
			return old(c, tp, extra)
		}
	}
	// linuxchecks.go's init runs first (file name order), so Registry holds
	// the cisco/linux dispatcher already.
	wrap3("C06", nil, c06Pan)
	wrap3("C09", nil, c09Pan)
	wrap3("C11", nil, c11Pan)
	wrap3("C17", nil, c17Pan)
}

func genAlnum(tp *tape.Tape, n int) string {
	const a = "ABCDEFGHJKLMNPQRSTUVWXYZabcdefghijkmnopqrstuvwxyz23456789"
	var b strings.Builder
	for i := 0; i < n; i++ {
		b.WriteByte(a[tp.Next(len(a))])
	}
	return b.String()
}

// c10Pan: an approve session is cut by a dropped connection at every change
// request in turn (the candidate configuration keeps what was set so far, the
// commit never happened); a second session must converge like any other.
func c10Pan(c *Ctx, tp *tape.Tape, extra map[string]any) *Failure {
	cs := GenPanCase(tp)
	o := PanOpts{Front: []string{"do-approve", "drc"}[tp.Next(2)], Timeout: 60}
	rb := c.LivePan(cs.Files, cs.Node(), o)
	var ks []int
	for _, rec := range rb.Node.Transcr {
		if rec.Class == "script" {
			if rec.Reject != "" {
				c.Count("skipped_rejected_script", 1)
				return nil
			}
			ks = append(ks, rec.K)
		}
	}
	if rb.Res.Exit != 0 || rb.Trouble != "" || rb.Res.Panic != "" || len(ks) == 0 {
		c.Count("base_not_usable", 1)
		return nil
	}
	c.NonTrivial(gen.PanDeviceXML(cs.A, cs.Spell), cs.Files["router"])
	only := -1
	if extra != nil {
		only = toInt(extra["cut"])
	}
	for _, k := range ks {
		if only >= 0 && k != only {
			continue
		}
		n := cs.Node()
		n.Faults = []panosdev.Fault{{At: k, Kind: "transport-error"}}
		r1 := c.LivePan(cs.Files, n, o)
		c.Res.Evaluations++
		c.Count("cuts", 1)
		if r1.Res.Exit == 0 {
			c.Count("cut_run_exit_0", 1)
			continue
		}
		n2 := panosdev.NewNode(n.Cand.Clone())
		n2.Running = n.Running.Clone()
		if f := panJudgeConverge(c, cs, n2, PanOpts{Front: "drc", Timeout: 60}, "C03", "resume-"); f != nil {
			f.Extra = map[string]any{"cut": k}
			f.Input["cut"] = fmt.Sprintf("connection closed at request %d of the first session", k)
			if !c.NoteKnown(f.Key) {
				return f
			}
		}
		if c.TimeUp() {
			return nil
		}
	}
	return nil
}

func init() {
	old := Registry["C10"]
	Registry["C10"] = func(c *Ctx, tp *tape.Tape, extra map[string]any) *Failure {
		switch tp.Next(6) {
		case 4:
			return c10Pan(c, tp, extra)
		case 5:
			return c10Nsx(c, tp, extra)
		}
		return old(c, tp, extra)
	}
}
