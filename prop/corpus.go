package prop

import (
	"os"
	"path/filepath"
	"regexp"
	"sort"
	"strings"

	"github.com/hknutzen/testtxt"
)

// CorpusCase is one (DEVICE, NETSPOC) pair of the repository's test data.
type CorpusCase struct {
	File    string
	Title   string
	Model   string
	Device  string
	Files   map[string]string // code dir content: router, ipv6/router, router.raw, router.info …
	Scen    string            // scenario text of simulator tests (if any)
	Netspoc string
}

type corpusDescr struct {
	Title     string
	Device    string
	Scenario  string
	Netspoc   string
	Options   string
	Params    string
	Setup     string
	Output    string
	Warning   string
	Error     string
	DoApprove bool
	Todo      bool
}

var markerRE = regexp.MustCompile(`(?ms)^-+[ ]*\S+[ ]*\n`)

// splitFiles splits a =NETSPOC= block into its files.
func splitFiles(single, input string) map[string]string {
	m := map[string]string{}
	if input == "NONE" {
		input = ""
	}
	il := markerRE.FindAllStringIndex(input, -1)
	if il == nil {
		m[single] = input
		return m
	}
	for i, p := range il {
		name := strings.Trim(input[p[0]:p[1]-1], "- ")
		end := len(input)
		if i+1 < len(il) {
			end = il[i+1][0]
		}
		m[name] = input[p[1]:end]
	}
	return m
}

var corpusCache []CorpusCase

func modelOfFile(base string) string {
	prefix, _, _ := strings.Cut(strings.TrimSuffix(base, ".t"), "_")
	switch prefix {
	case "asa":
		return "ASA"
	case "ios":
		return "IOS"
	case "linux":
		return "Linux"
	case "nsx":
		return "NSX"
	case "pan-os":
		return "PAN-OS"
	}
	return ""
}

// Corpus loads every test description of /repo/go/testdata.
func Corpus() ([]CorpusCase, error) {
	if corpusCache != nil {
		return corpusCache, nil
	}
	files, _ := filepath.Glob(repoDir() + "/go/testdata/*.t")
	sort.Strings(files)
	var res []CorpusCase
	for _, f := range files {
		base := filepath.Base(f)
		model := modelOfFile(base)
		if model == "" {
			continue
		}
		var l []corpusDescr
		if err := testtxt.ParseFile(f, &l); err != nil {
			return nil, err
		}
		for _, d := range l {
			if d.Todo {
				continue
			}
			cc := CorpusCase{File: base, Title: d.Title, Model: model, Device: d.Device,
				Scen: d.Scenario, Netspoc: d.Netspoc, Files: splitFiles("router", d.Netspoc)}
			res = append(res, cc)
		}
	}
	corpusCache = res
	return res, nil
}

// repoDir is /repo unless a developer run points the harness at a scratch
// worktree (bin/trymutant).
func repoDir() string {
	if d := os.Getenv("VERIF_REPO"); d != "" {
		return d
	}
	return "/repo"
}
