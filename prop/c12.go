package prop

import (
	"bufio"
	"encoding/json"
	"fmt"
	"net"
	"os"
	"os/exec"
	"path/filepath"
	"strings"
	"syscall"
	"time"

	"github.com/anishathalye/porcupine"
	"verif/gen"
	"verif/sim/cisco"
	"verif/sim/tape"
	"verif/sim/world"
)

type xProc struct {
	id       int
	name     string // front end + mode
	dev      string
	args     []string
	bin      string
	cmd      *exec.Cmd
	conn     net.Conn
	pending  string // point at which it is parked
	started  bool
	done     bool
	exit     int
	killed   bool
	acquired bool
	tried    bool
	points   []string
	errPath  string
	callSeq  int
	snap     string
}

type xEvent struct {
	p     *xProc
	point string // "exit" for process end
	conn  net.Conn
}

type lockOp struct {
	lock bool // true = tryLock, false = unlock
	proc int
}

// tryLockModel: sequential specification of the per-device lock.
var tryLockModel = porcupine.Model{
	Init: func() interface{} { return -1 }, // holder, -1 = free
	Step: func(state, input, output interface{}) (bool, interface{}) {
		holder := state.(int)
		in := input.(lockOp)
		if in.lock {
			ok := output.(bool)
			if holder == -1 {
				// A free lock must be granted.
				return ok, in.proc
			}
			return !ok, holder
		}
		if holder != in.proc {
			return false, holder
		}
		return true, -1
	},
	DescribeOperation: func(input, output interface{}) string {
		in := input.(lockOp)
		if in.lock {
			return fmt.Sprintf("tryLock(p%d)=%v", in.proc, output)
		}
		return fmt.Sprintf("unlock(p%d)", in.proc)
	},
}

func snapshotDirs(dir string, nodes []string) string {
	var b strings.Builder
	for _, sub := range []string{"status", "history", "policies/p1/log"} {
		b.WriteString(world.SnapshotString(world.Snapshot(filepath.Join(dir, sub))))
	}
	for _, n := range nodes {
		data, _ := os.ReadFile(n)
		b.WriteString("== node " + filepath.Base(n) + "\n" + string(data) + "\n")
	}
	return b.String()
}

func c12Run(c *Ctx, tp *tape.Tape, extra map[string]any) *Failure {
	vb := os.Getenv("VERIF_BIN")
	if vb == "" {
		vb = "/verif/.build/bin"
	}
	// World: two IOS devices with pending changes.
	k := gen.DefaultKnobs("IOS", tp)
	k.Independent, k.Crypto, k.Clutter = false, false, false
	gb := gen.GenTarget(tp, k)
	ga, _ := gen.DeriveDevice(tp, k, gb)
	A, B := ga.ToConf(true), gb.ToConf(false)
	code := cisco.RenderNetspoc(B)
	w, err := world.New(c.Root, world.Opts{Model: "IOS", Files: map[string]string{"router": code, "fw2": code},
		CheckBanner: "NetSPoC", Timeout: 30, LoginTO: 30})
	if err != nil {
		c.T.Fatal(err)
	}
	defer os.RemoveAll(w.Dir)
	os.WriteFile(filepath.Join(w.Dir, "policies/p1/code/fw2.info"),
		[]byte("{\"model\":\"IOS\",\"name_list\":[\"fw2\"],\"ip_list\":[\"10.1.13.34\"]}\n"), 0644)
	nodePath := map[string]string{}
	for _, dev := range []string{"router", "fw2"} {
		a := A.Clone()
		a.Hostname = dev
		nf := map[string]any{"conf": a, "startup": a, "password": "secret", "banner": "managed by NetSPoC"}
		data, _ := json.Marshal(nf)
		p := filepath.Join(w.Dir, "node-"+dev+".json")
		os.WriteFile(p, data, 0644)
		nodePath[dev] = p
	}
	nodes := []string{nodePath["router"], nodePath["fw2"]}
	sock := filepath.Join(w.Dir, "ctl.sock")
	ln, err := net.Listen("unix", sock)
	if err != nil {
		c.HarnessError("listen: %v", err)
		return nil
	}
	defer ln.Close()
	evCh := make(chan xEvent, 256)
	procs := map[int]*xProc{}
	go func() {
		for {
			conn, err := ln.Accept()
			if err != nil {
				return
			}
			go func(conn net.Conn) {
				rd := bufio.NewReader(conn)
				line, err := rd.ReadString('\n')
				if err != nil {
					return
				}
				var id, pid int
				fmt.Sscanf(line, "hello %d %d", &id, &pid)
				evCh <- xEvent{p: &xProc{id: id}, point: "hello", conn: conn}
				for {
					l, err := rd.ReadString('\n')
					if err != nil {
						return
					}
					evCh <- xEvent{p: &xProc{id: id}, point: strings.TrimSpace(strings.TrimPrefix(l, "point "))}
				}
			}(conn)
		}
	}()
	// Invocations.
	spell := []func(dev string) (string, string, []string){
		func(dev string) (string, string, []string) {
			return "drc-approve", "simdrc", []string{"-L", filepath.Join(w.Dir, "policies/p1/log"), filepath.Join(w.Dir, "policies/current/code", dev)}
		},
		func(dev string) (string, string, []string) {
			return "drc-compare-otherpath", "simdrc", []string{"-C", "-L", filepath.Join(w.Dir, "policies/p1/log"), filepath.Join(w.Dir, "policies/../policies/p1/code", dev)}
		},
		func(dev string) (string, string, []string) {
			return "do-approve-approve", "simdo-approve", []string{"approve", dev}
		},
		func(dev string) (string, string, []string) {
			return "do-approve-compare", "simdo-approve", []string{"compare", dev}
		},
	}
	n := 2 + tp.Next(2)
	control := tp.Next(5) == 0 // different devices: must both succeed
	var order []*xProc
	for i := 0; i < n; i++ {
		dev := "router"
		if control && i == 1 {
			dev = "fw2"
		}
		name, bin, args := spell[tp.Next(len(spell))](dev)
		p := &xProc{id: i + 1, name: name, dev: dev, bin: filepath.Join(vb, bin), args: args,
			errPath: filepath.Join(w.Dir, "tmp", fmt.Sprintf("proc%d.err", i+1))}
		procs[p.id] = p
		order = append(order, p)
	}
	var evlog []string
	seq := 0
	logf := func(f string, a ...any) {
		seq++
		evlog = append(evlog, fmt.Sprintf("%03d ", seq)+fmt.Sprintf(f, a...))
	}
	hist := map[string][]porcupine.Operation{}
	start := func(p *xProc) error {
		cmd := exec.Command(p.bin, p.args...)
		cmd.Dir = w.Dir
		cmd.Env = []string{"HOME=" + w.Dir, "PATH=/usr/bin:/bin", "VERIF_CTL=" + sock, "VERIF_NODE=" + nodePath[p.dev],
			fmt.Sprintf("VERIF_PROC=%d", p.id), "TMPDIR=" + filepath.Join(w.Dir, "tmp")}
		ef, _ := os.Create(p.errPath)
		cmd.Stderr, cmd.Stdout = ef, ef
		cmd.SysProcAttr = &syscall.SysProcAttr{Setpgid: true}
		if err := cmd.Start(); err != nil {
			return err
		}
		p.cmd, p.started = cmd, true
		go func() {
			err := cmd.Wait()
			ef.Close()
			code := 0
			if ee, ok := err.(*exec.ExitError); ok {
				code = ee.ExitCode()
			}
			evCh <- xEvent{p: &xProc{id: p.id, exit: code}, point: "exit"}
		}()
		logf("start p%d %s %s", p.id, p.name, p.dev)
		return nil
	}
	fail := func(key, msg string) *Failure {
		return &Failure{Key: key, Msg: msg, Log: evlog, Input: map[string]any{"events": evlog}}
	}
	var failure *Failure
	onPark := func(p *xProc, point string) {
		p.pending = point
		p.points = append(p.points, point)
		if strings.HasSuffix(point, ":locked") && !p.acquired {
			p.acquired = true
			seq++
			hist[p.dev] = append(hist[p.dev], porcupine.Operation{ClientId: p.id, Input: lockOp{true, p.id}, Output: true, Call: int64(p.callSeq), Return: int64(seq)})
			logf("p%d acquired lock %s", p.id, p.dev)
		}
	}
	onExit := func(p *xProc, code int) {
		p.done, p.exit, p.pending = true, code, ""
		logf("p%d exit %d", p.id, code)
		if p.conn != nil {
			p.conn.Close()
		}
		if p.tried && !p.acquired && !p.killed {
			// A loser.
			seq++
			hist[p.dev] = append(hist[p.dev], porcupine.Operation{ClientId: p.id, Input: lockOp{true, p.id}, Output: false, Call: int64(p.callSeq), Return: int64(seq)})
			errOut, _ := os.ReadFile(p.errPath)
			if failure == nil && (code != 1 || !strings.Contains(string(errOut), "Approve in progress for")) {
				failure = fail("loser-no-diagnostic|"+p.name, fmt.Sprintf("p%d lost the lock but exit=%d stderr=%q", p.id, code, firstLine(string(errOut))))
			}
			if after := snapshotDirs(w.Dir, nodes); failure == nil && after != p.snap {
				failure = fail("loser-left-trace|"+p.name, fmt.Sprintf("p%d (%s) lost the lock but changed status/history/log/device: %s",
					p.id, p.name, firstDiff(strings.Split(p.snap, "\n"), strings.Split(after, "\n"))))
			}
		}
		if p.acquired {
			seq++
			hist[p.dev] = append(hist[p.dev], porcupine.Operation{ClientId: p.id, Input: lockOp{false, p.id}, Output: true, Call: int64(seq), Return: int64(seq)})
			if p.killed {
				os.Remove(nodePath[p.dev] + ".session")
			}
		}
	}
	handle := func(ev xEvent) {
		p := procs[ev.p.id]
		if p == nil {
			return
		}
		switch ev.point {
		case "hello":
			p.conn = ev.conn
			fmt.Fprintln(p.conn, "go")
		case "exit":
			onExit(p, ev.p.exit)
		default:
			onPark(p, ev.point)
		}
	}
	settle := func() bool {
		deadline := time.After(60 * time.Second)
		for {
			busy := false
			for _, p := range order {
				if p.started && !p.done && p.pending == "" {
					busy = true
				}
			}
			if !busy {
				return true
			}
			select {
			case ev := <-evCh:
				handle(ev)
			case <-deadline:
				return false
			}
		}
	}
	release := func(p *xProc) {
		pt := p.pending
		p.pending = ""
		if strings.HasSuffix(pt, ":start") {
			p.tried = true
			seq++
			p.callSeq = seq
			p.snap = snapshotDirs(w.Dir, nodes)
		}
		fmt.Fprintln(p.conn, "go")
	}
	killed := false
	allowKill := tp.Next(3) == 0
	steps := 0
	next := 0 // next process to start
	if err := start(order[0]); err != nil {
		c.HarnessError("start: %v", err)
		return nil
	}
	next = 1
	for {
		if !settle() {
			for _, p := range order {
				if p.started && !p.done {
					syscall.Kill(-p.cmd.Process.Pid, syscall.SIGKILL)
				}
			}
			c.HarnessError("process mode: no progress within 60 s; events: %v", tail(evlog, 10))
			return nil
		}
		if failure != nil {
			break
		}
		if _, err := os.Stat(nodePath["router"] + ".overlap"); err == nil {
			failure = fail("overlap", "two sessions were open on the device at the same time")
			break
		}
		var parked []*xProc
		live := 0
		for _, p := range order {
			if p.started && !p.done {
				live++
				if p.pending != "" {
					parked = append(parked, p)
				}
			}
		}
		if live == 0 && next >= len(order) {
			break
		}
		steps++
		if steps > 3000 {
			c.HarnessError("process mode: more than 3000 steps")
			break
		}
		// Start a contender at this point of the holder?
		if next < len(order) && (live == 0 || tp.Next(12) == 0) {
			if err := start(order[next]); err != nil {
				c.HarnessError("start: %v", err)
				return nil
			}
			next++
			continue
		}
		if len(parked) == 0 {
			continue
		}
		p := parked[0]
		if len(parked) > 1 {
			// Mostly stay with the same process, sometimes switch.
			if tp.Next(4) == 0 {
				p = parked[tp.Next(len(parked))]
			}
		}
		if allowKill && !killed && p.acquired && tp.Next(25) == 0 {
			killed, p.killed = true, true
			logf("kill -9 p%d at %s", p.id, p.pending)
			syscall.Kill(-p.cmd.Process.Pid, syscall.SIGKILL)
			p.pending = ""
			continue
		}
		release(p)
	}
	for _, p := range order {
		if p.started && !p.done {
			syscall.Kill(-p.cmd.Process.Pid, syscall.SIGKILL)
		}
	}
	c.Count("steps", steps)
	if killed {
		c.Count("runs_with_kill", 1)
	}
	losers, winners := 0, 0
	for _, p := range order {
		if p.tried && !p.acquired {
			losers++
		}
		if p.acquired {
			winners++
		}
	}
	c.Count("losers", losers)
	c.Count("winners", winners)
	if losers > 0 || killed {
		c.NonTrivial(strings.Join(evlog, "\n"))
	}
	c.Sample(map[string]any{"events": head(evlog, 40)})
	if failure != nil {
		return failure
	}
	if control && winners < 2 && !killed {
		var names []string
		for _, p := range order {
			names = append(names, fmt.Sprintf("p%d:%s:%s:acquired=%v", p.id, p.name, p.dev, p.acquired))
		}
		_ = names
	}
	for dev, ops := range hist {
		res := porcupine.CheckOperationsTimeout(tryLockModel, ops, 30*time.Second)
		if res == porcupine.Illegal {
			var d []string
			for _, op := range ops {
				d = append(d, tryLockModel.DescribeOperation(op.Input, op.Output))
			}
			kind := "spurious-failure"
			if killed {
				kind = "lock-history-illegal-after-kill"
			}
			return fail(kind, fmt.Sprintf("lock history of %s is not a legal try-lock history: %s", dev, strings.Join(d, ", ")))
		}
		if res == porcupine.Unknown {
			c.Count("porcupine_unknown", 1)
		}
	}
	return nil
}

func init() { Registry["C12"] = c12Run }
