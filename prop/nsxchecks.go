package prop

import (
	"fmt"
	"strings"
	"time"

	"verif/sim/nsxdev"
	"verif/sim/tape"
)

var nsxFaultKinds = []string{"status-500", "status-409", "transport-error", "client-timeout", "malformed-body", "empty-body", "wrong-root"}

func nsxChangedCase(tp *tape.Tape) *NsxCase {
	for i := 0; i < 4; i++ {
		cs := GenNsxCase(tp)
		if len(cs.Ops) > 0 {
			return cs
		}
	}
	return GenNsxCase(tp)
}

func nsxFaultExtra(f *nsxdev.Fault) map[string]any {
	if f == nil {
		return map[string]any{"fault": map[string]any{"at": 0, "kind": "none"}}
	}
	return map[string]any{"fault": map[string]any{"at": f.At, "kind": f.Kind}}
}

func judgeNsxFault(r *NsxResult, o PanOpts, f nsxdev.Fault, approve bool) (key, msg string) {
	pre := "NSX|" + o.Front + "|"
	n := r.Node
	if r.Trouble != "" {
		return pre + "no-exit|" + f.Kind, r.Trouble
	}
	if r.Res.Panic != "" {
		return pre + "panic|" + f.Kind + "|" + panicFunc(r.Res.Panic), firstLine(r.Res.Panic)
	}
	if n.FaultSeq < 0 {
		return "", ""
	}
	phase := "?"
	for _, rec := range n.Transcr {
		if rec.Fault != "" {
			phase = rec.Class
			break
		}
	}
	sfx := phase + "|" + f.Kind
	for _, rec := range n.Transcr {
		if rec.K > n.FaultK && rec.Class == "script" {
			return pre + "script-after-fault|" + sfx, fmt.Sprintf("change request %d (%s %s) sent after the manager failed at request %d (%s)", rec.K, rec.Method, rec.Path, n.FaultK, f.Kind)
		}
	}
	if r.Res.Exit == 0 {
		return pre + "exit-0|" + sfx, fmt.Sprintf("exit status 0 although the manager failed at request %d (%s)", n.FaultK, f.Kind)
	}
	if lim := time.Duration(5*o.Timeout+20) * time.Second; r.EndAt > lim {
		return pre + "slow-exit|" + sfx, fmt.Sprintf("tool needed %v of simulated time", r.EndAt)
	}
	if o.Front == "do-approve" {
		if r.Status == nil {
			return pre + "status-missing|" + sfx, "no status file written"
		}
		if approve && r.Status.Approve.Result != "FAILED" {
			return pre + "status-wrong|" + sfx, fmt.Sprintf("approve status is %q, expected FAILED", r.Status.Approve.Result)
		}
		if !approve && r.Status.Compare.Result != "DIFF" {
			return pre + "status-wrong|" + sfx, fmt.Sprintf("compare status is %q, expected DIFF", r.Status.Compare.Result)
		}
		if !strings.HasSuffix(strings.TrimSpace(r.History), "END: FAILED") {
			return pre + "no-END-FAILED|" + sfx, "history does not end with END: FAILED"
		}
		if !strings.Contains(r.RunLog, "ERROR>>>") {
			return pre + "no-diagnostic|" + sfx, "run log has no ERROR>>> line"
		}
	} else if !strings.Contains(r.Res.Stderr, "ERROR>>>") {
		return pre + "no-diagnostic|" + sfx, "stderr has no diagnostic"
	}
	return "", ""
}

func judgeNsxOK(r *NsxResult, o PanOpts, approve bool) (key, msg string) {
	pre := "NSX|" + o.Front + "|"
	okRun := r.Res.Exit == 0
	if o.Front == "do-approve" && approve {
		okRun = r.Status != nil && r.Status.Approve.Result == "OK"
		if okRun != (r.Res.Exit == 0) {
			return pre + "status-vs-exit", "status and exit status disagree"
		}
	}
	if !okRun || !approve {
		return "", ""
	}
	for _, rec := range r.Node.Transcr {
		if rec.Class == "script" {
			if rec.Reject != "" {
				return pre + "ok-with-rejected-command", fmt.Sprintf("OK reported although the manager rejected request %d: %s", rec.K, rec.Reject)
			}
			if rec.Fault != "" {
				return pre + "ok-with-failed-command|" + rec.Fault, fmt.Sprintf("OK reported although request %d failed", rec.K)
			}
		}
	}
	return "", ""
}

func c09Nsx(c *Ctx, tp *tape.Tape, extra map[string]any) *Failure {
	cs := nsxChangedCase(tp)
	o := PanOpts{Front: []string{"do-approve", "drc"}[tp.Next(2)], Timeout: []int{60, 10, 30}[tp.Next(3)]}
	approve := tp.Next(4) != 0
	o.Compare = !approve
	run := func(f *nsxdev.Fault) *NsxResult {
		n := cs.Node()
		if f != nil && f.Kind != "none" {
			n.Faults = []nsxdev.Fault{*f}
		}
		return c.LiveNsx(cs.Files, n, o)
	}
	mk := func(key, msg string, r *NsxResult, f *nsxdev.Fault) *Failure {
		in := cs.Input()
		in["stderr"] = strings.Split(r.Res.Stderr+"\n"+r.RunLog, "\n")
		return &Failure{Key: key, Msg: msg, Input: in, Extra: nsxFaultExtra(f), Log: tail(r.Log, 60)}
	}
	if extra != nil {
		fm, _ := extra["fault"].(map[string]any)
		f := nsxdev.Fault{At: toInt(fm["at"]), Kind: fmt.Sprint(fm["kind"])}
		r := run(&f)
		if k, m := judgeNsxFault(r, o, f, approve); k != "" {
			return mk(k, m, r, &f)
		}
		if k, m := judgeNsxOK(r, o, approve); k != "" {
			return mk(k, m, r, &f)
		}
		return nil
	}
	base := run(nil)
	if k, m := judgeNsxOK(base, o, approve); k != "" && !c.NoteKnown(k) {
		return mk(k, m, base, nil)
	}
	if base.Res.Exit != 0 || base.Trouble != "" || base.Res.Panic != "" {
		c.Count("base_not_accepted", 1)
		return nil
	}
	c.Count("base_runs_nsx", 1)
	c.NonTrivial(cs.A.NetspocJSON(), cs.Files["router"], o.Front, fmt.Sprint(approve))
	for pi, rec := range base.Node.Transcr {
		for ki, fk := range nsxFaultKinds {
			if c.Quick && (pi+ki)%3 != len(tp.Rec)%3 {
				continue
			}
			f := nsxdev.Fault{At: rec.K, Kind: fk}
			r := run(&f)
			c.Res.Evaluations++
			c.Count("faults_fired:"+fk, r.Node.Fired[fk])
			if k, m := judgeNsxFault(r, o, f, approve); k != "" {
				if !c.NoteKnown(k) {
					return mk(k, m, r, &f)
				}
				continue
			}
			if k, m := judgeNsxOK(r, o, approve); k != "" && !c.NoteKnown(k) {
				return mk(k, m, r, &f)
			}
			if c.TimeUp() {
				return nil
			}
		}
	}
	return nil
}

func c11Nsx(c *Ctx, tp *tape.Tape, extra map[string]any) *Failure {
	cs := nsxChangedCase(tp)
	o := PanOpts{Front: []string{"do-approve", "drc"}[tp.Next(2)], Timeout: 30, Compare: true}
	before := cs.Node().Fingerprint()
	judge := func(r *NsxResult) (string, string) {
		pre := "NSX|" + o.Front + "|"
		if r.Trouble != "" {
			return pre + "no-exit", r.Trouble
		}
		if r.Res.Panic != "" {
			return pre + "panic|" + panicFunc(r.Res.Panic), firstLine(r.Res.Panic)
		}
		for _, rec := range r.Node.Transcr {
			if rec.Class == "script" {
				return pre + "sent|script", fmt.Sprintf("compare sent %s %s", rec.Method, rec.Path)
			}
		}
		if r.Node.Fingerprint() != before {
			return pre + "state-changed", "manager state differs after compare"
		}
		return "", ""
	}
	run := func(f *nsxdev.Fault) *NsxResult {
		n := cs.Node()
		if f != nil && f.Kind != "none" {
			n.Faults = []nsxdev.Fault{*f}
		}
		return c.LiveNsx(cs.Files, n, o)
	}
	mk := func(key, msg string, r *NsxResult, f *nsxdev.Fault) *Failure {
		in := cs.Input()
		in["stderr"] = strings.Split(r.Res.Stderr, "\n")
		return &Failure{Key: key, Msg: msg, Input: in, Extra: nsxFaultExtra(f), Log: tail(r.Log, 40)}
	}
	if extra != nil {
		fm, _ := extra["fault"].(map[string]any)
		f := nsxdev.Fault{At: toInt(fm["at"]), Kind: fmt.Sprint(fm["kind"])}
		r := run(&f)
		if k, m := judge(r); k != "" {
			return mk(k, m, r, &f)
		}
		return nil
	}
	base := run(nil)
	if k, m := judge(base); k != "" && !c.NoteKnown(k) {
		return mk(k, m, base, nil)
	}
	c.NonTrivial(cs.A.NetspocJSON(), cs.Files["router"], o.Front)
	for _, rec := range base.Node.Transcr {
		for _, fk := range nsxFaultKinds {
			f := nsxdev.Fault{At: rec.K, Kind: fk}
			r := run(&f)
			c.Res.Evaluations++
			if k, m := judge(r); k != "" && !c.NoteKnown(k) {
				return mk(k, m, r, &f)
			}
		}
	}
	return nil
}

func c17Nsx(c *Ctx, tp *tape.Tape, extra map[string]any) *Failure {
	cs := GenNsxCase(tp)
	o := PanOpts{Front: []string{"do-approve", "drc"}[tp.Next(2)], Timeout: 30, Compare: tp.Next(3) == 0}
	o.Password = genSecret(tp, "PW")
	token := "tok-" + genAlnum(tp, 24)
	cookie := "JSESSIONID=" + genAlnum(tp, 28)
	secrets := map[string]string{"password": o.Password, "xsrf-token": token, "session-cookie": strings.TrimPrefix(cookie, "JSESSIONID=")}
	run := func(f *nsxdev.Fault) *NsxResult {
		n := cs.Node()
		n.Token, n.Cookie = token, cookie
		if f != nil && f.Kind != "none" {
			n.Faults = []nsxdev.Fault{*f}
		}
		return c.LiveNsx(cs.Files, n, o)
	}
	judge := func(r *NsxResult, f *nsxdev.Fault) (string, string) {
		if r.Trouble != "" {
			return "NSX|no-exit", r.Trouble
		}
		sink, sk := scanSecrets(secrets, r.Files, r.Res.Stdout, r.Res.Stderr)
		if sink == "" {
			return "", ""
		}
		trig := "success"
		if f != nil && f.Kind != "none" {
			phase := "?"
			for _, rec := range r.Node.Transcr {
				if rec.Fault != "" {
					phase = rec.Class
					break
				}
			}
			trig = f.Kind + "@" + phase
		}
		return fmt.Sprintf("NSX|%s|%s|%s", sk, sinkClass(sink), trig), fmt.Sprintf("%s found in %s", sk, sink)
	}
	mk := func(k, m string, r *NsxResult, f *nsxdev.Fault) *Failure {
		return &Failure{Key: k, Msg: m, Input: map[string]any{"stderr": strings.Split(r.Res.Stderr, "\n"), "password": o.Password},
			Extra: nsxFaultExtra(f), Log: tail(r.Log, 40)}
	}
	if extra != nil {
		fm, _ := extra["fault"].(map[string]any)
		f := nsxdev.Fault{At: toInt(fm["at"]), Kind: fmt.Sprint(fm["kind"])}
		r := run(&f)
		if k, m := judge(r, &f); k != "" {
			return mk(k, m, r, &f)
		}
		return nil
	}
	base := run(nil)
	if k, m := judge(base, nil); k != "" && !c.NoteKnown(k) {
		return mk(k, m, base, nil)
	}
	c.NonTrivial(o.Password, token, o.Front)
	for _, rec := range base.Node.Transcr {
		for _, fk := range nsxFaultKinds {
			f := nsxdev.Fault{At: rec.K, Kind: fk}
			r := run(&f)
			c.Res.Evaluations++
			if k, m := judge(r, &f); k != "" && !c.NoteKnown(k) {
				return mk(k, m, r, &f)
			}
			if c.TimeUp() {
				return nil
			}
		}
	}
	return nil
}

func init() {
	wrapN := func(id string, nsx RunFunc) {
		old := Registry[id]
		Registry[id] = func(c *Ctx, tp *tape.Tape, extra map[string]any) *Failure {
			if tp.Next(6) == 5 {
				return nsx(c, tp, extra)
			}
			return old(c, tp, extra)
		}
	}
	// init order follows file names: linuxchecks.go, nsxchecks.go, panoschecks.go.
	wrapN("C09", c09Nsx)
	wrapN("C11", c11Nsx)
	wrapN("C17", c17Nsx)
}
