package prop

import (
	"fmt"
	"net/netip"
	"regexp"
	"sort"
	"strings"

	"verif/gen"
	"verif/sim/cisco"
	"verif/sim/tape"
)

// Outcome of executing one planned script on the node, with every oracle
// evaluated; each property picks its own findings.
type Outcome struct {
	Accepted  bool
	Plan      Plan
	Node      *cisco.Node
	Rejects   []string // C08
	RejectAt  []int
	StateDiff string // C01/C02: canon(result) vs canon(target)
	Recompare string // second compare not empty
	Unchanged string // "device unchanged" although different
	Frame     string // C07
	FrameStep int
	Step      string // C14
	StepKey   string
	States    []*cisco.Conf // state after each prefix (only if keepStates)
	Boundary  []bool        // States[i] is at a command boundary (not between joined halves)
}

var drcTag = regexp.MustCompile(`-DRC-\d+`)

// unmanagedSet computes, by its own reachability analysis over the device
// state, the objects outside Netspoc's scope (C07).  The result maps an
// object identity to its text.
func unmanagedSet(a *cisco.Conf, sc *cisco.Scope) map[string]string {
	type ref = cisco.Ref
	// Named things and their outgoing references.
	text := map[string]string{}
	refs := map[string][]ref{}
	id := func(r ref) string { return r.Kind + " " + r.Name }
	for _, acl := range a.ACLs {
		k := id(ref{Kind: "acl", Name: acl.Name})
		var l []string
		for _, e := range acl.Entries {
			l = append(l, cisco.NormACE(a.Kind, e.Text))
			refs[k] = append(refs[k], cisco.ACERefs(e.Text)...)
		}
		text[k] = strings.Join(l, "\n")
	}
	managedRoots := []ref{}
	unmanagedRoots := []string{}
	for i, o := range a.Objs {
		t := o.Head + "\n " + strings.Join(o.Subs, "\n ")
		if o.Opaque {
			k := fmt.Sprintf("opaque#%d %s", i, o.Head)
			text[k] = t
			unmanagedRoots = append(unmanagedRoots, k)
			continue
		}
		if d, ok := cisco.Owner(o.Head); ok {
			k := id(d)
			text[k] += t + "\n"
			refs[k] = append(refs[k], cisco.LineRefs(o)...)
			if d.Kind == "aaa" || d.Kind == "ldapmap" {
				unmanagedRoots = append(unmanagedRoots, k)
			}
			continue
		}
		// Anchors and other top-level lines.
		k := "line " + o.Head
		inScope := false
		switch {
		case strings.HasPrefix(o.Head, "interface "):
			name := strings.TrimPrefix(o.Head, "interface ")
			if a.Kind == "IOS" && sc.Ifaces[name] {
				inScope = true
			}
			if a.Kind == "ASA" {
				// Interface definitions are never changed.
				text[k] = t
				unmanagedRoots = append(unmanagedRoots, k)
				continue
			}
		case strings.HasPrefix(o.Head, "access-group "):
			f := strings.Fields(o.Head)
			inScope = f[len(f)-1] == "global" || sc.Ifaces[f[len(f)-1]]
		case cisco.RouteFam(a.Kind, o.Head) != "":
			inScope = sc.RouteFams[cisco.RouteFam(a.Kind, o.Head)]
		case strings.HasPrefix(o.Head, "crypto map ") && strings.Contains(o.Head, " interface "):
			f := strings.Fields(o.Head)
			inScope = sc.Ifaces[f[len(f)-1]]
		default:
			inScope = true // tunnel-group-map, webvpn, username …: managed anchors
		}
		if inScope {
			managedRoots = append(managedRoots, cisco.LineRefs(o)...)
		} else {
			text[k] = t
			refs[k] = cisco.LineRefs(o)
			unmanagedRoots = append(unmanagedRoots, k)
		}
	}
	// Reachable from managed anchors.
	managed := map[string]bool{}
	var walk func(r ref)
	walk = func(r ref) {
		k := id(r)
		if managed[k] {
			return
		}
		managed[k] = true
		for _, x := range refs[k] {
			walk(x)
		}
	}
	for _, r := range managedRoots {
		walk(r)
	}
	// Unmanaged: roots, untagged unreachable objects, and whatever they reference.
	u := map[string]bool{}
	var mark func(k string)
	mark = func(k string) {
		if u[k] {
			return
		}
		u[k] = true
		for _, x := range refs[k] {
			mark(id(x))
		}
	}
	for _, k := range unmanagedRoots {
		mark(k)
	}
	for k := range text {
		if strings.HasPrefix(k, "line ") || strings.HasPrefix(k, "opaque#") {
			continue
		}
		name := k[strings.Index(k, " ")+1:]
		if !managed[k] && !drcTag.MatchString(name) {
			mark(k)
		}
	}
	res := map[string]string{}
	for k := range u {
		if t, ok := text[k]; ok {
			res[k] = t
		}
	}
	return res
}

// frameCheck compares the unmanaged objects with their original text.
func frameCheck(cur *cisco.Conf, sc *cisco.Scope, orig map[string]string) string {
	now := map[string]string{}
	for _, acl := range cur.ACLs {
		var l []string
		for _, e := range acl.Entries {
			l = append(l, cisco.NormACE(cur.Kind, e.Text))
		}
		now["acl "+acl.Name] = strings.Join(l, "\n")
	}
	for i, o := range cur.Objs {
		t := o.Head + "\n " + strings.Join(o.Subs, "\n ")
		if o.Opaque {
			now[fmt.Sprintf("opaque %s", o.Head)] += t
			_ = i
			continue
		}
		if d, ok := cisco.Owner(o.Head); ok {
			now[d.Kind+" "+d.Name] += t + "\n"
			continue
		}
		now["line "+o.Head] = t
	}
	keys := make([]string, 0, len(orig))
	for k := range orig {
		keys = append(keys, k)
	}
	sort.Strings(keys)
	for _, k := range keys {
		want := orig[k]
		lk := k
		if strings.HasPrefix(k, "opaque#") {
			lk = "opaque " + k[strings.Index(k, " ")+1:]
		}
		got, ok := now[lk]
		if !ok {
			return "deleted: " + k
		}
		if got != want {
			return fmt.Sprintf("edited: %s: was %q, is %q", k, want, got)
		}
	}
	return ""
}

type binding struct{ iface, dir string }

func bindings(c *cisco.Conf, sc *cisco.Scope) map[binding]string {
	m := map[binding]string{}
	for _, o := range c.Objs {
		if o.Opaque {
			continue
		}
		if c.Kind == "ASA" {
			f := strings.Fields(o.Head)
			if len(f) == 5 && f[0] == "access-group" && sc.Ifaces[f[4]] {
				m[binding{f[4], f[2]}] = f[1]
			}
			continue
		}
		if name, ok := strings.CutPrefix(o.Head, "interface "); ok && sc.Ifaces[name] {
			for _, s := range o.Subs {
				f := strings.Fields(s)
				if len(f) == 4 && f[0] == "ip" && f[1] == "access-group" {
					m[binding{name, f[3]}] = f[2]
				}
			}
		}
	}
	return m
}

type verdicts map[binding][]int // per packet: 1 permit, 0 deny, -1 unbound

func evalAll(c *cisco.Conf, sc *cisco.Scope, pk []cisco.Packet) (verdicts, map[binding][]int, error) {
	v := verdicts{}
	lines := map[binding][]int{}
	for b, name := range bindings(c, sc) {
		acl := c.ACL(name)
		if acl == nil {
			continue
		}
		l := make([]int, len(pk))
		ln := make([]int, len(pk))
		for i, p := range pk {
			ok, line, err := cisco.Verdict(c, acl, p)
			if err != nil {
				return nil, nil, err
			}
			if ok {
				l[i] = 1
			}
			ln[i] = line
		}
		v[b] = l
		lines[b] = ln
	}
	return v, lines, nil
}

func routeDsts(c *cisco.Conf, sc *cisco.Scope) map[string]bool {
	m := map[string]bool{}
	for _, o := range c.Objs {
		if o.Opaque {
			continue
		}
		fam := cisco.RouteFam(c.Kind, o.Head)
		if fam == "" || !sc.RouteFams[fam] {
			continue
		}
		f := strings.Fields(o.Head)
		// destination = everything but the next hop (last field), metric stripped.
		if c.Kind == "ASA" {
			if len(f) >= 5 {
				m[strings.Join(f[:4], " ")] = true
				if f[0] == "ipv6" {
					m[strings.Join(f[:4], " ")] = true
				}
			}
		} else {
			m[strings.Join(f[:len(f)-1], " ")] = true
		}
	}
	return m
}

// ExecPlan executes the script step by step on a copy of the device state
// with all step-wise oracles.
func ExecPlan(cs *CiscoCase, p Plan, keepStates bool, stepwise bool, loose ...bool) *Outcome {
	o := &Outcome{Plan: p, Accepted: p.Exit == 0 && p.Panic == ""}
	if !o.Accepted {
		return o
	}
	sc := cisco.ScopeOf(cs.B)
	n := cisco.NewNode(cs.A.Clone())
	n.InConfig = true
	if len(loose) > 0 && loose[0] {
		// A device that does not enforce referential rules (frame check only).
		n.Strict = false
	}
	o.Node = n
	orig := unmanagedSet(cs.A, sc)
	pk := gen.Packets()
	var oldV verdicts
	var oldR map[string]bool
	type snap struct {
		conf   *cisco.Conf
		inEdit string
	}
	var steps []snap
	if keepStates {
		o.States = append(o.States, n.Conf.Clone())
		o.Boundary = append(o.Boundary, true)
	}
	if stepwise {
		var err error
		oldV, _, err = evalAll(cs.A, sc, pk)
		if err != nil {
			o.Step = "harness: " + err.Error()
			o.StepKey = "harness"
		}
		oldR = routeDsts(cs.A, sc)
	}
	for i, cmd := range p.Script {
		rej, _ := n.Exec(cmd.Line)
		if rej != "" {
			o.Rejects = append(o.Rejects, fmt.Sprintf("command %d %q: %s", i+1, cmd.Line, rej))
			o.RejectAt = append(o.RejectAt, i)
		}
		endOfStep := i+1 == len(p.Script) || !p.Script[i+1].Joined
		if keepStates {
			o.States = append(o.States, n.Conf.Clone())
			o.Boundary = append(o.Boundary, endOfStep)
		}
		if o.Frame == "" {
			if d := frameCheck(n.Conf, sc, orig); d != "" {
				o.Frame = fmt.Sprintf("after command %d %q: %s", i+1, cmd.Line, d)
				o.FrameStep = i
			}
		}
		if stepwise && endOfStep {
			steps = append(steps, snap{n.Conf.Clone(), n.EditingGroup()})
		}
	}
	// Final-state oracles.
	want := cisco.Canon(cs.B, sc)
	got := cisco.Canon(n.Conf, sc)
	o.StateDiff = cisco.DiffCanon(got, want)
	if len(p.Script) == 0 && o.StateDiff != "" {
		o.Unchanged = o.StateDiff
	}
	if stepwise && o.StepKey == "" && len(o.Rejects) == 0 {
		// "New" is the target, not whatever the script ends with: a wrong
		// verdict that stays until the end is a wrong step, too.
		newV, _, err := evalAll(cs.B, sc, pk)
		if err != nil {
			o.Step, o.StepKey = "harness: "+err.Error(), "harness"
			return o
		}
		finalV, _, _ := evalAll(n.Conf, sc, pk)
		newR := routeDsts(cs.B, sc)
		oldC, newC := routeCover(cs.A, sc), routeCover(cs.B, sc)
		// The statement does not cover edits to the membership of an
		// object-group: ACLs that use such a group (before or after) are
		// not judged.
		edited := editedGroups(cs.A, p.Script)
		skipACL := func(c *cisco.Conf, name string) bool {
			acl := c.ACL(name)
			if acl == nil {
				return false
			}
			for g := range edited {
				if aclUsesGroup(c, acl, g) {
					return true
				}
			}
			return false
		}
		skipB := map[binding]bool{}
		for b, name := range bindings(cs.A, sc) {
			if skipACL(cs.A, name) {
				skipB[b] = true
			}
		}
		for b, name := range bindings(n.Conf, sc) {
			if skipACL(n.Conf, name) {
				skipB[b] = true
			}
		}
		idx := 0
		for i, cmd := range p.Script {
			endOfStep := i+1 == len(p.Script) || !p.Script[i+1].Joined
			if !endOfStep {
				continue
			}
			st := steps[idx]
			idx++
			curV, curL, err := evalAll(st.conf, sc, pk)
			if err != nil {
				o.Step, o.StepKey = "harness: "+err.Error(), "harness"
				return o
			}
			for b, ov := range oldV {
				nv, ok := newV[b]
				if !ok {
					continue
				}
				cv, bound := curV[b]
				if skipB[b] {
					continue
				}
				// Suspend while a group referenced by this ACL is being edited.
				if st.inEdit != "" && bound {
					if acl := st.conf.ACL(bindings(st.conf, sc)[b]); acl != nil && aclUsesGroup(st.conf, acl, st.inEdit) {
						continue
					}
				}
				for j := range pk {
					if ov[j] != nv[j] {
						continue
					}
					if !bound {
						o.Step = fmt.Sprintf("after step %d %q: no ACL bound to %s %s although bound before and after",
							i+1, cmd.Line, b.iface, b.dir)
						o.StepKey = "unbound-in-between"
						return o
					}
					if cv[j] != ov[j] {
						dir := "interrupts-permitted"
						if ov[j] == 0 {
							dir = "opens-denied"
						}
						o.Step = fmt.Sprintf(
							"after step %d %q: packet %v on %s %s gets %d (line %d), old=new=%d",
							i+1, cmd.Line, pk[j], b.iface, b.dir, cv[j], curL[b][j], ov[j])
						cls := "implicit-deny"
						if ln := curL[b][j]; ln > 0 {
							cls = lineClass(cs, st.conf, n.Conf, sc, b, ln)
						}
						o.StepKey = stepKind(p.Script, i) + "|" + cls + "|" + dir
						if sharedOnDevice(cs.A, sc, b) {
							o.StepKey = "shared-acl-on-device|" + dir
						}
						if fv, ok := finalV[b]; ok && fv[j] != nv[j] {
							// not transient: the script ends with it (C01/C02 judge that, too)
							o.StepKey += "|persists"
						}
						return o
					}
				}
			}
			curR := routeDsts(st.conf, sc)
			for d := range oldR {
				if newR[d] && !curR[d] {
					o.Step = fmt.Sprintf("after step %d %q: destination %q has no route although it has one before and after",
						i+1, cmd.Line, d)
					o.StepKey = "route-lost"
					return o
				}
			}
			curC := routeCover(st.conf, sc)
			for a := range oldC {
				if newC[a] && !curC[a] {
					o.Step = fmt.Sprintf("after step %d %q: address %s is covered by a route before and after but by none now",
						i+1, cmd.Line, a)
					o.StepKey = "route-coverage-lost"
					return o
				}
			}
		}
	}
	return o
}

func aclUsesGroup(c *cisco.Conf, acl *cisco.ACL, g string) bool {
	seen := map[string]bool{}
	var uses func(name string) bool
	uses = func(name string) bool {
		if name == g {
			return true
		}
		if seen[name] {
			return false
		}
		seen[name] = true
		for _, r := range cisco.GroupRefs(c, name) {
			if uses(r) {
				return true
			}
		}
		return false
	}
	for _, e := range acl.Entries {
		for _, r := range cisco.ACERefs(e.Text) {
			if uses(r.Name) {
				return true
			}
		}
	}
	return false
}

// stepKind classifies the script step ending at index i.
func stepKind(s []Cmd, i int) string {
	l := s[i].Line
	if s[i].Joined {
		prev := s[i-1].Line
		if strings.Contains(l, "access-list") || regexp.MustCompile(`^\d+ `).MatchString(l) {
			// Compare positions to tell direction.
			var a, b int
			fmt.Sscanf(lineNo(prev), "%d", &a)
			fmt.Sscanf(lineNo(l), "%d", &b)
			if b < a {
				return "move-up"
			}
			return "move-down"
		}
		return "replace"
	}
	k := cmdKind(l)
	switch {
	case strings.HasPrefix(l, "no access-list"), strings.HasPrefix(l, "no ") && k == "numbered-ace":
		return "delete"
	case strings.HasPrefix(l, "access-list"), k == "numbered-ace":
		return "insert"
	case strings.Contains(l, "access-group"):
		return "rebind"
	case strings.HasPrefix(l, "clear configure"):
		return "clear"
	}
	return k
}

var lineNoRE = regexp.MustCompile(`(?:line (\d+) |^(?:no )?(\d+)(?: |$))`)

func lineNo(l string) string {
	m := lineNoRE.FindStringSubmatch(l)
	if m == nil {
		return "0"
	}
	if m[1] != "" {
		return m[1]
	}
	return m[2]
}

// Recompare prints the resulting state in device spelling and compares again.
func (c *Ctx) Recompare(cs *CiscoCase, conf *cisco.Conf, tp *tape.Tape) (string, Plan) {
	po := *cs.PO
	dev := cisco.Print(conf, &po)
	p := c.PlanCompare(cs.Kind, dev, cs.Files)
	if p.Panic != "" {
		return "second compare panics: " + firstLine(p.Panic), p
	}
	if p.Exit != 0 {
		return "second compare rejects the resulting configuration: " + firstLine(p.Stderr), p
	}
	if len(p.Script) != 0 {
		return fmt.Sprintf("second compare still wants %d commands, first: %q", len(p.Script), p.Script[0].Line), p
	}
	if !strings.Contains(p.Stderr, "comp: device unchanged") {
		return "second compare has empty script but does not report 'device unchanged'", p
	}
	return "", p
}

func firstLine(s string) string {
	l, _, _ := strings.Cut(strings.TrimSpace(s), "\n")
	return l
}

// lineClass tells whether the entry that now matches first is still to be
// deleted, was inserted ahead of time, or is common to old and new.
func lineClass(cs *CiscoCase, cur, final *cisco.Conf, sc *cisco.Scope, b binding, ln int) string {
	acl := cur.ACL(bindings(cur, sc)[b])
	if acl == nil || ln > len(acl.Entries) {
		return "?"
	}
	text := cisco.NormACE(cur.Kind, acl.Entries[ln-1].Text)
	has := func(c *cisco.Conf) bool {
		a := c.ACL(bindings(c, sc)[b])
		if a == nil {
			return false
		}
		for _, e := range a.Entries {
			if cisco.NormACE(c.Kind, e.Text) == text {
				return true
			}
		}
		return false
	}
	inOld, inNew := has(cs.A), has(final)
	switch {
	case inOld && !inNew:
		return "pending-delete"
	case !inOld && inNew:
		return "early-insert"
	case inOld && inNew:
		return "common"
	}
	return "transient"
}

// sharedOnDevice: the ACL bound at b is bound more than once on the device.
func sharedOnDevice(a *cisco.Conf, sc *cisco.Scope, b binding) bool {
	bs := bindings(a, sc)
	n := 0
	for _, name := range bs {
		if name == bs[b] {
			n++
		}
	}
	return n > 1
}

// editedGroups lists the object-groups that exist on the device and whose
// membership the script changes.
func editedGroups(a *cisco.Conf, script []Cmd) map[string]bool {
	res := map[string]bool{}
	cur := ""
	for _, c := range script {
		l := c.Line
		f := strings.Fields(l)
		if len(f) >= 3 && f[0] == "object-group" {
			cur = f[2]
			continue
		}
		body := strings.TrimPrefix(l, "no ")
		if cur != "" && (strings.HasPrefix(body, "network-object ") || strings.HasPrefix(body, "group-object ") ||
			strings.HasPrefix(body, "port-object ") || strings.HasPrefix(body, "service-object ")) {
			if a.Exists(cisco.Ref{Kind: "og", Name: cur}) {
				res[cur] = true
			}
			continue
		}
		cur = ""
	}
	return res
}

// routeCover tells for each probe address whether a route of the families the
// target speaks about covers it (per family / VRF).
func routeCover(c *cisco.Conf, sc *cisco.Scope) map[string]bool {
	m := map[string]bool{}
	for _, o := range c.Objs {
		if o.Opaque {
			continue
		}
		fam := cisco.RouteFam(c.Kind, o.Head)
		if fam == "" || !sc.RouteFams[fam] || strings.HasPrefix(fam, "ipv6") {
			continue
		}
		f := strings.Fields(o.Head)
		// ... DST MASK HOP: the two fields before the hop.
		if c.Kind == "ASA" && len(f) >= 5 {
			f = f[:5]
		}
		if len(f) < 4 {
			continue
		}
		ip, err1 := netip.ParseAddr(f[len(f)-3])
		mask, err2 := netip.ParseAddr(f[len(f)-2])
		if err1 != nil || err2 != nil {
			continue
		}
		bits := 0
		for _, b := range mask.As4() {
			for i := 7; i >= 0; i-- {
				if b&(1<<uint(i)) != 0 {
					bits++
				}
			}
		}
		p := netip.PrefixFrom(ip, bits)
		for _, a := range gen.RouteProbes() {
			if p.Contains(a) {
				m[fam+" "+a.String()] = true
			}
		}
	}
	return m
}
