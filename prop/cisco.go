package prop

import (
	"fmt"
	"os"
	"path/filepath"
	"strings"

	"github.com/hknutzen/Netspoc-Approve/go/pkg/drc"
	"verif/gen"
	"verif/sim/cisco"
	"verif/sim/tape"
	"verif/sim/world"
)

type CiscoCase struct {
	Kind  string
	GA    *gen.GConf
	GB    *gen.GConf
	A, B  *cisco.Conf
	Ops   []string
	PO    *cisco.PrintOpt
	Files map[string]string
	Knobs gen.Knobs
}

func GenCiscoCase(tp *tape.Tape, kind string) *CiscoCase {
	return GenCiscoCaseK(tp, kind, nil)
}

func GenCiscoCaseK(tp *tape.Tape, kind string, adjust func(*gen.Knobs)) *CiscoCase {
	k := gen.DefaultKnobs(kind, tp)
	if adjust != nil {
		adjust(&k)
	}
	cs := &CiscoCase{Kind: kind, Knobs: k}
	cs.GB = gen.GenTarget(tp, k)
	if k.Independent {
		k2 := k
		cs.GA = gen.GenTarget(tp, k2)
		// Same interfaces as the target, otherwise the tool rejects the pair.
		cs.GA.Ifaces = append([]gen.GIface(nil), cs.GB.Ifaces...)
		cs.Ops = []string{"independent device state"}
		fixBinds(cs.GA)
	} else {
		cs.GA, cs.Ops = gen.DeriveDevice(tp, k, cs.GB)
	}
	if k.DropIfaces {
		cs.Ops = append(cs.Ops, gen.DropInterfaces(cs.GA, 2)...)
	}
	if k.Clutter {
		cs.Ops = append(cs.Ops, gen.AddClutter(tp, cs.GA)...)
	}
	cs.A = cs.GA.ToConf(true)
	cs.B = cs.GB.ToConf(false)
	cs.PO = &cisco.PrintOpt{}
	if tp.Chance(1, 3) {
		cs.PO.Spell = tp.Next(32)
	}
	if kind == "IOS" {
		cs.PO.IOSXESeq = tp.Chance(1, 3)
	} else {
		cs.PO.RouteMetr = tp.Chance(1, 4)
	}
	cs.Files = map[string]string{"router": cisco.RenderNetspoc(cs.B)}
	return cs
}

// An independently drawn device may bind ACLs to interfaces it does not have.
func fixBinds(g *gen.GConf) {
	ok := map[string]bool{}
	for _, i := range g.Ifaces {
		ok[i.Name] = true
		ok[i.HW] = true
	}
	var keep []gen.GBind
	for _, b := range g.Binds {
		if ok[b.Iface] {
			keep = append(keep, b)
		}
	}
	g.Binds = keep
	for i := range g.Crypto {
		if !ok[g.Crypto[i].Iface] {
			g.Crypto[i].Iface = g.Ifaces[0].Name
			if g.Kind == "IOS" {
				g.Crypto[i].Iface = g.Ifaces[0].HW
			}
		}
	}
	if len(g.Crypto) > 1 {
		g.Crypto = g.Crypto[:1]
	}
	for i := range g.Routes {
		if g.Kind == "ASA" && !ok[g.Routes[i].Iface] {
			g.Routes[i].Iface = g.Ifaces[0].Name
		}
	}
}

type Cmd struct {
	Line   string
	Joined bool // second half of a line sent together with the previous one
}

type Plan struct {
	Exit   int
	Script []Cmd
	Stdout string
	Stderr string
	Panic  string
}

func parseScript(out string) []Cmd {
	var l []Cmd
	for _, line := range strings.Split(out, "\n") {
		if line == "" {
			continue
		}
		if a, b, ok := strings.Cut(line, "\\N "); ok {
			l = append(l, Cmd{Line: a}, Cmd{Line: b, Joined: true})
		} else {
			l = append(l, Cmd{Line: line})
		}
	}
	return l
}

// PlanCompare runs the real "drc DEVICE-FILE CODE-FILE".
func (c *Ctx) PlanCompare(model, devText string, files map[string]string) Plan {
	w, err := world.New(c.Root, world.Opts{Model: model, Files: files})
	if err != nil {
		c.T.Fatal(err)
	}
	defer os.RemoveAll(w.Dir)
	devFile := filepath.Join(w.Dir, "device")
	os.WriteFile(devFile, []byte(devText), 0644)
	res := w.Call([]string{"drc", devFile, w.CodeFile()}, drc.Main)
	return Plan{Exit: res.Exit, Script: parseScript(res.Stdout), Stdout: res.Stdout,
		Stderr: res.Stderr, Panic: res.Panic}
}

func scriptText(s []Cmd) []string {
	var l []string
	for _, c := range s {
		if c.Joined {
			l[len(l)-1] += " \\N " + c.Line
		} else {
			l = append(l, c.Line)
		}
	}
	return l
}

func (cs *CiscoCase) Input() map[string]any {
	return map[string]any{
		"device": strings.Split(cisco.Print(cs.A, cs.PO), "\n"),
		"target": strings.Split(cs.Files["router"], "\n"),
		"ops":    cs.Ops,
		"print":  fmt.Sprintf("%+v", *cs.PO),
	}
}

// firstWordKind gives the object kind of a canonical difference, for keys.
func diffKind(d string) string {
	_, rest, _ := strings.Cut(d, ": ")
	f := strings.Fields(rest)
	if len(f) == 0 {
		return "?"
	}
	switch f[0] {
	case "access-group", "interface":
		return "acl-binding"
	case "route", "ip", "ipv6":
		return "route"
	case "crypto":
		return "crypto"
	}
	return f[0]
}

func cmdKind(line string) string {
	f := strings.Fields(line)
	for len(f) > 0 && f[0] == "no" {
		f = f[1:]
	}
	if len(f) == 0 {
		return "empty"
	}
	if _, err := fmt.Sscanf(f[0], "%d", new(int)); err == nil {
		return "numbered-ace"
	}
	if len(f) > 1 && (f[0] == "clear" || f[0] == "ip" || f[0] == "crypto") {
		return f[0] + " " + f[1]
	}
	return f[0]
}

func rejectKind(rej string) string {
	switch {
	case strings.Contains(rej, "references missing"):
		return "missing-referent"
	case strings.Contains(rej, "still referenced"):
		return "delete-referenced"
	case strings.Contains(rej, "already present"), strings.Contains(rej, "duplicate entry"):
		return "duplicate-ace"
	case strings.Contains(rej, "line holds"), strings.Contains(rej, "has only"),
		strings.Contains(rej, "beyond end"), strings.Contains(rej, "no such entry"),
		strings.Contains(rej, "already in use"), strings.Contains(rej, "not found"):
		return "wrong-line-number"
	case strings.Contains(rej, "not in configuration mode"):
		return "left-config-mode"
	case strings.Contains(rej, "does not exist"):
		return "missing-acl"
	}
	return "other"
}

func ciscoPrint(cs *CiscoCase) string { return cisco.Print(cs.A, cs.PO) }
