package prop

import (
	"fmt"
	"strings"

	"verif/sim/cisco"
	"verif/sim/linuxdev"
	"verif/sim/tape"
)

func lxFaultKinds(class, line string) []string {
	switch class {
	case "login":
		return []string{"stall", "close", "auth-reject"}
	case "change", "save":
		return []string{"stall", "close", "close-after-echo", "error-text", "nonzero-status", "garbage-output", "garbled-echo", "slow"}
	case "read":
		if line == "echo $?" {
			return []string{"stall", "close", "garbage-output"}
		}
		return []string{"stall", "close", "close-after-echo", "garbled-echo", "slow"}
	}
	return []string{"stall", "close"}
}

// lxChangedCase draws a Linux pair with a non-empty difference (up to 4 tries).
func lxChangedCase(c *Ctx, tp *tape.Tape) *LinuxCase {
	for i := 0; i < 4; i++ {
		cs := GenLinuxCase(tp)
		p := c.PlanCompare("Linux", cs.DeviceText(), cs.Files)
		if p.Exit == 0 && p.Panic == "" && strings.TrimSpace(p.Stdout) != "" {
			return cs
		}
	}
	return nil
}

func faultExtra(f *cisco.Fault) map[string]any {
	if f == nil {
		return map[string]any{"fault": map[string]any{"at": 0, "kind": "none", "arg": 0}}
	}
	return map[string]any{"fault": map[string]any{"at": f.At, "kind": f.Kind, "arg": f.Arg}}
}

func faultOf(extra map[string]any) cisco.Fault {
	fm, _ := extra["fault"].(map[string]any)
	return cisco.Fault{At: toInt(fm["at"]), Kind: fmt.Sprint(fm["kind"]), Arg: toInt(fm["arg"])}
}

// C09 on Linux sessions.
func c09Linux(c *Ctx, tp *tape.Tape, extra map[string]any) *Failure {
	cs := lxChangedCase(c, tp)
	if cs == nil {
		return nil
	}
	o := DefaultLiveOpts(tp)
	approve := tp.Next(4) != 0
	o.Compare = !approve
	mk := func(key, msg string, r *LiveResult, f *cisco.Fault) *Failure {
		in := cs.Input()
		in["stderr"] = strings.Split(r.Res.Stderr, "\n")
		in["opts"] = fmt.Sprintf("%+v", o)
		return &Failure{Key: key, Msg: msg, Input: in, Extra: faultExtra(f), Log: tail(r.Log, 60)}
	}
	run := func(f *cisco.Fault) *LiveResult {
		oo := o
		if f != nil && f.Kind != "none" {
			oo.Faults = []cisco.Fault{*f}
		}
		return c.LiveLinux(cs, cs.A.Clone(), oo)
	}
	if extra != nil {
		f := faultOf(extra)
		r := run(&f)
		if f.Kind != "none" {
			if k, m := judgeFault(r, o, f, approve); k != "" {
				return mk(k, m, r, &f)
			}
		}
		if k, m := judgeOK(r, o, approve); k != "" {
			return mk(k, m, r, &f)
		}
		return nil
	}
	base := run(nil)
	if k, m := judgeOK(base, o, approve); k != "" && !c.NoteKnown(k) {
		return mk(k, m, base, nil)
	}
	if base.Res.Exit != 0 || base.Trouble != "" {
		c.Count("base_not_accepted", 1)
		return nil
	}
	c.Count("base_runs_linux", 1)
	c.NonTrivial(cs.DeviceText(), cs.Files["router"], o.Front, fmt.Sprint(approve))
	for pi, rec := range base.Transcr {
		for ki, fk := range lxFaultKinds(rec.Class, rec.Line) {
			if c.Quick && (pi+ki)%3 != len(tp.Rec)%3 {
				continue
			}
			f := cisco.Fault{At: rec.K, Kind: fk}
			if fk == "slow" {
				f.Arg = o.Timeout / 2
			}
			r := run(&f)
			c.Res.Evaluations++
			c.Count("faults_fired:"+fk, r.Fired[fk])
			if k, m := judgeFault(r, o, f, approve); k != "" {
				if !c.NoteKnown(k) {
					return mk(k, m, r, &f)
				}
				continue
			}
			if k, m := judgeOK(r, o, approve); k != "" && !c.NoteKnown(k) {
				return mk(k, m, r, &f)
			}
			if c.TimeUp() {
				return nil
			}
		}
	}
	return nil
}

// C11 on Linux sessions.
func c11Linux(c *Ctx, tp *tape.Tape, extra map[string]any) *Failure {
	cs := lxChangedCase(c, tp)
	if cs == nil {
		return nil
	}
	o := DefaultLiveOpts(tp)
	o.Compare = true
	switch tp.Next(6) {
	case 0:
		cs.A.Issue = "Debian GNU/Linux 11\n"
	case 1:
		o.CheckBanner = ""
	case 2:
		o.Hostname = "other"
	}
	before := cs.A.Fingerprint()
	judge := func(r *LiveResult) (string, string) {
		pre := "Linux|" + o.Front + "|"
		if r.Trouble != "" {
			return pre + "no-exit", r.Trouble
		}
		if r.Res.Panic != "" {
			return pre + "panic|" + panicFunc(r.Res.Panic), firstLine(r.Res.Panic)
		}
		for _, rec := range r.Transcr {
			if rec.Class == "change" || rec.Class == "save" {
				return pre + "sent|" + rec.Class, fmt.Sprintf("compare sent %s command %q", rec.Class, rec.Line)
			}
		}
		if r.LDev.Host.Fingerprint() != before {
			return pre + "state-changed", "routes, ruleset or files of the host differ after compare"
		}
		return "", ""
	}
	mk := func(key, msg string, r *LiveResult, f *cisco.Fault) *Failure {
		in := cs.Input()
		in["stderr"] = strings.Split(r.Res.Stderr, "\n")
		return &Failure{Key: key, Msg: msg, Input: in, Extra: faultExtra(f), Log: tail(r.Log, 60)}
	}
	run := func(f *cisco.Fault) *LiveResult {
		oo := o
		if f != nil && f.Kind != "none" {
			oo.Faults = []cisco.Fault{*f}
		}
		return c.LiveLinux(cs, cs.A.Clone(), oo)
	}
	if extra != nil {
		f := faultOf(extra)
		r := run(&f)
		if k, m := judge(r); k != "" {
			return mk(k, m, r, &f)
		}
		return nil
	}
	base := run(nil)
	if k, m := judge(base); k != "" && !c.NoteKnown(k) {
		return mk(k, m, base, nil)
	}
	c.NonTrivial(cs.DeviceText(), cs.Files["router"], o.Front, o.CheckBanner, o.Hostname)
	c.Count("base_runs_linux", 1)
	for pi, rec := range base.Transcr {
		for ki, fk := range lxFaultKinds(rec.Class, rec.Line) {
			if c.Quick && (pi+ki)%3 != len(tp.Rec)%3 {
				continue
			}
			f := cisco.Fault{At: rec.K, Kind: fk}
			r := run(&f)
			c.Res.Evaluations++
			if k, m := judge(r); k != "" && !c.NoteKnown(k) {
				return mk(k, m, r, &f)
			}
			if c.TimeUp() {
				return nil
			}
		}
	}
	return nil
}

// C17 on Linux sessions.
func c17Linux(c *Ctx, tp *tape.Tape, extra map[string]any) *Failure {
	cs := GenLinuxCase(tp)
	o := DefaultLiveOpts(tp)
	o.Compare = tp.Next(3) == 0
	o.Password = genSecret(tp, "PW")
	secrets := map[string]string{"password": o.Password}
	judge := func(r *LiveResult, f *cisco.Fault) (string, string) {
		if r.Trouble != "" {
			return "Linux|no-exit", r.Trouble
		}
		sink, sk := scanSecrets(secrets, r.Files, r.Res.Stdout, r.Res.Stderr)
		if sink == "" {
			return "", ""
		}
		trig := "success"
		if f != nil && f.Kind != "none" {
			phase := "?"
			for _, rec := range r.Transcr {
				if rec.Fault != "" {
					phase = rec.Class
					break
				}
			}
			trig = f.Kind + "@" + phase
		}
		return fmt.Sprintf("Linux|%s|%s|%s", sk, sinkClass(sink), trig), fmt.Sprintf("%s found in %s", sk, sink)
	}
	mk := func(key, msg string, r *LiveResult, f *cisco.Fault) *Failure {
		return &Failure{Key: key, Msg: msg, Input: map[string]any{"stderr": strings.Split(r.Res.Stderr, "\n"), "opts": fmt.Sprintf("%+v", o)},
			Extra: faultExtra(f), Log: tail(r.Log, 60)}
	}
	run := func(f *cisco.Fault) *LiveResult {
		oo := o
		if f != nil && f.Kind != "none" {
			oo.Faults = []cisco.Fault{*f}
		}
		return c.LiveLinux(cs, cs.A.Clone(), oo)
	}
	if extra != nil {
		f := faultOf(extra)
		r := run(&f)
		if k, m := judge(r, &f); k != "" {
			return mk(k, m, r, &f)
		}
		return nil
	}
	base := run(nil)
	if k, m := judge(base, nil); k != "" && !c.NoteKnown(k) {
		return mk(k, m, base, nil)
	}
	c.NonTrivial(o.Password, "Linux", o.Front)
	for pi, rec := range base.Transcr {
		for ki, fk := range lxFaultKinds(rec.Class, rec.Line) {
			if c.Quick && rec.Class != "login" && (pi+ki)%4 != len(tp.Rec)%4 {
				continue
			}
			f := cisco.Fault{At: rec.K, Kind: fk}
			r := run(&f)
			c.Res.Evaluations++
			if k, m := judge(r, &f); k != "" && !c.NoteKnown(k) {
				return mk(k, m, r, &f)
			}
			if c.TimeUp() {
				return nil
			}
		}
	}
	return nil
}

// C06 on Linux: hostname x /etc/issue marker x front end.
func c06Linux(c *Ctx, tp *tape.Tape, extra map[string]any) *Failure {
	cs := lxChangedCase(c, tp)
	if cs == nil {
		return nil
	}
	base := DefaultLiveOpts(tp)
	base.Compare = false
	type combo struct{ front, host, marker string }
	var combos []combo
	for _, fr := range []string{"drc", "do-approve"} {
		for _, h := range []string{"", "other", "ROUTER", "rout"} {
			for _, m := range []string{"present", "absent", "unconfigured"} {
				combos = append(combos, combo{fr, h, m})
			}
		}
	}
	if extra != nil {
		combos = []combo{{fmt.Sprint(extra["front"]), fmt.Sprint(extra["host"]), fmt.Sprint(extra["marker"])}}
	}
	script := func(r *LiveResult) string {
		var l []string
		for _, rec := range r.Transcr {
			if rec.Class == "change" || rec.Class == "save" {
				l = append(l, rec.Line)
			}
		}
		return strings.Join(l, "\n")
	}
	run := func(cb combo) (*LiveResult, *linuxdev.Host) {
		o := base
		o.Front, o.Hostname = cb.front, cb.host
		h := cs.A.Clone()
		switch cb.marker {
		case "absent":
			h.Issue = "Debian GNU/Linux 11 \\n \\l\n"
		case "unconfigured":
			o.CheckBanner = ""
			h.Issue = "Debian GNU/Linux 11 \\n \\l\n"
		}
		return c.LiveLinux(cs, h, o), h
	}
	ref, _ := run(combo{"drc", "", "present"})
	if ref.Res.Exit == 0 && script(ref) != "" {
		c.NonTrivial(cs.DeviceText(), cs.Files["router"])
	}
	for _, cb := range combos {
		r, _ := run(cb)
		c.Res.Evaluations++
		c.Count("combo_linux:"+cb.host+"/"+cb.marker, 1)
		fail := func(sym, msg string) *Failure {
			key := fmt.Sprintf("Linux|%s|%s|%s", cond(cb.host, cb.marker), sym, cb.front)
			if c.NoteKnown(key) {
				return nil
			}
			in := cs.Input()
			in["stderr"] = strings.Split(r.Res.Stderr+r.RunLog, "\n")
			return &Failure{Key: key, Msg: msg, Input: in, Log: tail(r.Log, 50),
				Extra: map[string]any{"front": cb.front, "host": cb.host, "marker": cb.marker}}
		}
		if r.Trouble != "" {
			if f := fail("no-exit", r.Trouble); f != nil {
				return f
			}
			continue
		}
		if r.Res.Panic != "" {
			if f := fail("panic", firstLine(r.Res.Panic)); f != nil {
				return f
			}
			continue
		}
		wrong := cb.host != "" || cb.marker == "absent"
		if wrong {
			if s := script(r); s != "" {
				if f := fail("script-sent", fmt.Sprintf("change commands sent to a device that is %s: %q", cond(cb.host, cb.marker), firstLine(s))); f != nil {
					return f
				}
			}
			if r.Res.Exit == 0 {
				if f := fail("exit-0", "exit status 0"); f != nil {
					return f
				}
			}
			if !strings.Contains(r.Res.Stderr+r.RunLog, "ERROR>>>") {
				if f := fail("no-diagnostic", "no ERROR>>> line"); f != nil {
					return f
				}
			}
			continue
		}
		if ref.Res.Exit == 0 {
			if r.Res.Exit != 0 {
				if f := fail("fails-on-right-device", "exit "+fmt.Sprint(r.Res.Exit)+": "+errorLine(r.Res.Stderr+r.RunLog)); f != nil {
					return f
				}
				continue
			}
			if script(r) != script(ref) {
				if f := fail("script-differs", "script differs from the reference run"); f != nil {
					return f
				}
			}
		}
	}
	return nil
}

func init() {
	wrap := func(id string, ciscoFn, lxFn RunFunc) {
		Registry[id] = func(c *Ctx, tp *tape.Tape, extra map[string]any) *Failure {
			if tp.Next(4) == 3 {
				return lxFn(c, tp, extra)
			}
			return ciscoFn(c, tp, extra)
		}
	}
	wrap("C06", c06Cisco, c06Linux)
	wrap("C09", c09Run, c09Linux)
	wrap("C11", c11Run, c11Linux)
	wrap("C17", c17Cisco, c17Linux)
}
