package prop

import (
	"fmt"
	"os"
	"os/exec"
	"path/filepath"
	"sort"
	"strings"
	"time"

	"verif/sim/cisco"
	"verif/sim/tape"
	"verif/sim/world"
)

type obsKind int

const (
	obsNone obsKind = iota
	obsApproveOK
	obsUptodate
	obsDiff
	obsUnjudged
)

func (k obsKind) String() string {
	return [...]string{"none", "approveOK", "UPTODATE", "DIFF", "unjudged"}[k]
}

type c13Dev struct {
	name    string
	node    *cisco.Conf // what the device carries
	obs     obsKind
	obsPol  int
	damaged bool
}

type c13World struct {
	c      *Ctx
	w      *world.World
	devs   []*c13Dev
	cur    int
	code   map[int]map[string][3]string // policy -> device -> (v4, v6, raw)
	onDisk map[int]bool
	clock  time.Time
	log    []string
}

func routeLines(variant int, kind int) string {
	switch kind {
	case 0:
		return fmt.Sprintf("ip route 10.%d.0.0 255.255.0.0 10.9.0.1\nip route 10.250.0.0 255.255.0.0 10.9.0.1\n", 10+variant)
	case 1:
		return fmt.Sprintf("ipv6 route 2001:db8:%d::/48 2001:db8::1\n", 10+variant)
	}
	return fmt.Sprintf("ip route 10.200.%d.0 255.255.255.0 10.9.0.2\n", variant)
}

func (x *c13World) polDir(p int) string {
	return filepath.Join(x.w.Dir, "policies", fmt.Sprintf("p%d", p))
}

func (x *c13World) writePolicy(p int) {
	dir := filepath.Join(x.polDir(p), "code")
	os.MkdirAll(filepath.Join(dir, "ipv6"), 0755)
	for _, d := range x.devs {
		cs := x.code[p][d.name]
		os.WriteFile(filepath.Join(dir, d.name), []byte(cs[0]), 0644)
		os.WriteFile(filepath.Join(dir, d.name+".info"),
			[]byte(fmt.Sprintf("{\"model\":\"IOS\",\"name_list\":[%q],\"ip_list\":[\"10.1.13.33\"]}\n", d.name)), 0644)
		if cs[1] != "" {
			os.WriteFile(filepath.Join(dir, "ipv6", d.name), []byte(cs[1]), 0644)
		}
		if cs[2] != "" {
			os.WriteFile(filepath.Join(dir, d.name+".raw"), []byte(cs[2]), 0644)
		}
	}
	link := filepath.Join(x.w.Dir, "policies", "current")
	os.Remove(link)
	os.Symlink(fmt.Sprintf("p%d", p), link)
	x.onDisk[p] = true
	x.cur = p
	x.w.Policy = fmt.Sprintf("p%d", p)
}

func (x *c13World) tick(tp *tape.Tape) {
	x.clock = x.clock.Add(time.Duration(1+tp.Next(90)) * time.Second)
	x.w.TestTime = x.clock.Format("2006-Jan-02 15:04:05")
}

func (x *c13World) missing() (map[string]bool, string, int) {
	bin := os.Getenv("VERIF_BIN")
	if bin == "" {
		bin = "/verif/.build/bin"
	}
	cmd := exec.Command(filepath.Join(bin, "missing-approve"))
	cmd.Env = []string{"HOME=" + x.w.Dir, "PATH=/usr/bin:/bin"}
	cmd.Dir = x.w.Dir
	out, err := cmd.CombinedOutput()
	code := 0
	if ee, ok := err.(*exec.ExitError); ok {
		code = ee.ExitCode()
	}
	m := map[string]bool{}
	for _, l := range strings.Split(string(out), "\n") {
		if l != "" {
			m[l] = true
		}
	}
	return m, string(out), code
}

func (x *c13World) statusSummary(dev string) string {
	data, err := os.ReadFile(filepath.Join(x.w.Dir, "status", dev))
	if err != nil {
		return "absent"
	}
	var st Status
	if jsonUnmarshal(data, &st) != nil {
		return "unparsable"
	}
	a, cmp := st.Approve.Result, st.Compare.Result
	if a == "" {
		a = "-"
	}
	if cmp == "" {
		cmp = "-"
	}
	order := "a<c"
	if st.Approve.Time >= st.Compare.Time {
		order = "a>=c"
	}
	return fmt.Sprintf("approve:%s,compare:%s,%s", a, cmp, order)
}

func c13Run(c *Ctx, tp *tape.Tape, extra map[string]any) *Failure {
	nd := 1 + tp.Next(2)
	w, err := world.New(c.Root, world.Opts{Model: "IOS", Files: map[string]string{}, Info: "NONE", CheckBanner: "NetSPoC", Timeout: 30})
	if err != nil {
		c.T.Fatal(err)
	}
	defer os.RemoveAll(w.Dir)
	os.RemoveAll(filepath.Join(w.Dir, "policies", "p1"))
	x := &c13World{c: c, w: w, code: map[int]map[string][3]string{}, onDisk: map[int]bool{},
		clock: time.Date(2024, 9, 29, 16, 0, 0, 0, time.UTC)}
	for i := 0; i < nd; i++ {
		name := []string{"router", "fw2"}[i]
		x.devs = append(x.devs, &c13Dev{name: name, node: &cisco.Conf{Kind: "IOS", Hostname: name,
			Objs: []*cisco.Obj{{Head: "interface GigabitEthernet0/0", Mode: true, Subs: []string{"ip address 10.9.0.9 255.255.255.0"}}}}})
	}
	// First policy.
	variants := map[string][3]int{}
	mk := func(p int) {
		x.code[p] = map[string][3]string{}
		for _, d := range x.devs {
			v := variants[d.name]
			cs := [3]string{routeLines(v[0], 0), "", ""}
			if v[1] > 0 {
				cs[1] = routeLines(v[1], 1)
			}
			if v[2] > 0 {
				cs[2] = routeLines(v[2], 2)
			}
			x.code[p][d.name] = cs
		}
	}
	for _, d := range x.devs {
		variants[d.name] = [3]int{tp.Next(2), tp.Next(2), tp.Next(2)}
	}
	mk(1)
	x.writePolicy(1)
	x.tick(tp)
	nEv := 3 + tp.Next(10)
	logf := func(f string, a ...any) { x.log = append(x.log, fmt.Sprintf(f, a...)) }
	logf("policy p1 created")
	lo := LiveOpts{Front: "do-approve", CheckBanner: "NetSPoC", Banner: "managed by NetSPoC", Timeout: 30, LoginTO: 3}
	judge := func(after string) *Failure {
		listed, out, code := x.missing()
		c.Res.Evaluations++
		if code != 0 {
			return &Failure{Key: fmt.Sprintf("missing-approve-exit-%d", code), Msg: "missing-approve fails: " + firstLine(out), Log: x.log}
		}
		for _, d := range x.devs {
			if d.obs == obsUnjudged {
				continue
			}
			est := (d.obs == obsApproveOK || d.obs == obsUptodate) && x.code[d.obsPol][d.name] == x.code[x.cur][d.name]
			key, msg := "", ""
			if !est && !listed[d.name] {
				key = fmt.Sprintf("forgotten|obs=%s|%s", d.obs, x.statusSummary(d.name))
				msg = fmt.Sprintf("after %s: %s is NOT listed although its latest conclusive observation (%s at p%d) does not establish that it carries the code of current p%d",
					after, d.name, d.obs, d.obsPol, x.cur)
			}
			if est && x.onDisk[d.obsPol] && !d.damaged && listed[d.name] {
				key = fmt.Sprintf("never-omitted|obs=%s|%s", d.obs, x.statusSummary(d.name))
				msg = fmt.Sprintf("after %s: %s IS listed although %s at p%d establishes identical code to current p%d and p%d is on disk",
					after, d.name, d.obs, d.obsPol, x.cur, d.obsPol)
			}
			if key != "" && !c.NoteKnown(key) {
				st, _ := os.ReadFile(filepath.Join(x.w.Dir, "status", d.name))
				return &Failure{Key: key, Msg: msg, Log: x.log,
					Input: map[string]any{"events": x.log, "status_file": string(st), "missing_approve_output": out}}
			}
		}
		return nil
	}
	for ev := 0; ev < nEv; ev++ {
		x.tick(tp)
		d := x.devs[tp.Next(len(x.devs))]
		what := ""
		switch op := tp.Next(12); {
		case op <= 2: // new policy
			for _, dd := range x.devs {
				v := variants[dd.name]
				for i := 0; i < 3; i++ {
					switch tp.Next(4) {
					case 0:
						v[i] = (v[i] + 1) % 3
					case 1:
						v[i] = 0
						if i == 0 {
							v[i] = 1
						}
					}
				}
				variants[dd.name] = v
			}
			mk(x.cur + 1)
			x.writePolicy(x.cur + 1)
			what = fmt.Sprintf("new policy p%d (variants %v)", x.cur, variants)
		case op <= 5: // approve
			oo := lo
			oo.World = x.w
			x.w.DevName = d.name
			polStart := x.cur
			if tp.Next(5) == 0 {
				// newpolicy.sh takes no device lock: a new policy may become
				// current while the session runs.
				at := 4 + tp.Next(12)
				oo.OnLine = func(k int, line string) {
					if k == at && x.cur == polStart {
						v := variants[d.name]
						v[0] = (v[0] + 1) % 3
						variants[d.name] = v
						mk(x.cur + 1)
						x.writePolicy(x.cur + 1)
						logf("   (policy p%d became current during the session, at device line %d)", x.cur, k)
					}
				}
			}
			faulty := tp.Next(3) == 0
			if faulty {
				oo.Faults = []cisco.Fault{{At: 3 + tp.Next(25), Kind: []string{"close", "error-text", "stall"}[tp.Next(3)]}}
			}
			cs := &CiscoCase{Kind: "IOS", A: d.node, PO: &cisco.PrintOpt{}}
			r := c.LiveCisco(cs, oo, tape.Replay(nil))
			d.node = r.Dev.Node.Conf
			if r.Dev.ReloadFired || !r.Dev.ReloadAt.IsZero() {
				d.node = r.Dev.Startup.Clone()
			}
			ok := r.Res.Exit == 0 && r.Trouble == "" && r.Res.Panic == ""
			if ok {
				// What was pushed is the code of the policy the run started with.
				d.obs, d.obsPol, d.damaged = obsApproveOK, polStart, false
			}
			what = fmt.Sprintf("approve %s at p%d: exit %d (faults fired: %v)", d.name, polStart, r.Res.Exit, r.Dev.FaultsFired)
		case op <= 8: // compare
			oo := lo
			oo.World = x.w
			oo.Compare = true
			oo.Brief = tp.Next(2) == 0 // compare-all runs 'do-approve --brief compare'
			x.w.DevName = d.name
			polStart := x.cur
			if tp.Next(6) == 0 {
				at := 4 + tp.Next(6)
				oo.OnLine = func(k int, line string) {
					if k == at && x.cur == polStart {
						v := variants[d.name]
						v[0] = (v[0] + 1) % 3
						variants[d.name] = v
						mk(x.cur + 1)
						x.writePolicy(x.cur + 1)
						logf("   (policy p%d became current during the session, at device line %d)", x.cur, k)
					}
				}
			}
			if tp.Next(4) == 0 {
				oo.Faults = []cisco.Fault{{At: 3 + tp.Next(8), Kind: []string{"close", "stall"}[tp.Next(2)]}}
			}
			cs := &CiscoCase{Kind: "IOS", A: d.node, PO: &cisco.PrintOpt{}}
			r := c.LiveCisco(cs, oo, tape.Replay(nil))
			disturbed := r.Dev.FaultSeq >= 0 || r.Res.Exit != 0 || r.Trouble != ""
			// What an undisturbed compare observes is decided by the device
			// and the code of the policy, not by what the run wrote into its
			// log: the planning entry point compares the two directly.
			cs3 := x.code[polStart][d.name]
			files := map[string]string{"router": cs3[0]}
			if cs3[1] != "" {
				files["ipv6/router"] = cs3[1]
			}
			if cs3[2] != "" {
				files["router.raw"] = cs3[2]
			}
			truth := c.PlanCompare("IOS", cisco.Print(d.node, nil), files)
			switch {
			case disturbed || truth.Exit != 0 || truth.Panic != "":
				d.obs = obsUnjudged
			case len(truth.Script) == 0:
				d.obs, d.obsPol, d.damaged = obsUptodate, polStart, false
			default:
				d.obs, d.obsPol, d.damaged = obsDiff, polStart, false
			}
			what = fmt.Sprintf("compare %s at p%d: exit %d -> %s", d.name, polStart, r.Res.Exit, d.obs)
		case op == 9: // manual drift on the device
			d.node.Objs = append(d.node.Objs, &cisco.Obj{Head: fmt.Sprintf("ip route 10.77.%d.0 255.255.255.0 10.9.0.7", tp.Next(50))})
			what = "manual change on " + d.name
		case op == 10: // compress or remove an old policy
			var old []int
			for p := range x.onDisk {
				if p < x.cur && x.onDisk[p] {
					old = append(old, p)
				}
			}
			sort.Ints(old)
			if len(old) == 0 {
				what = "no old policy to compress"
				break
			}
			p := old[tp.Next(len(old))]
			if tp.Next(3) == 0 {
				os.RemoveAll(x.polDir(p))
				x.onDisk[p] = false
				what = fmt.Sprintf("old policy p%d removed", p)
			} else {
				out, err := exec.Command("sh", "-c", "find "+x.polDir(p)+" -mindepth 2 -type f ! -name '*.bz2' -print0 | xargs -r -0 bzip2 -9 -f").CombinedOutput()
				if err != nil {
					c.HarnessError("bzip2: %v %s", err, out)
				}
				what = fmt.Sprintf("old policy p%d compressed", p)
			}
		case op == 11: // status file damaged
			st := filepath.Join(x.w.Dir, "status", d.name)
			data, err := os.ReadFile(st)
			if err != nil {
				what = "no status file to damage"
				break
			}
			switch tp.Next(3) {
			case 0:
				os.WriteFile(st, nil, 0644)
			case 1:
				os.WriteFile(st, data[:len(data)/2], 0644)
			default:
				os.WriteFile(st, []byte(strings.ReplaceAll(string(data), "\"", "'")), 0644)
			}
			d.damaged = true
			what = "status file of " + d.name + " damaged"
		}
		logf("t=%s %s", x.clock.Format("15:04:05"), what)
		if f := judge(what); f != nil {
			return f
		}
	}
	c.NonTrivial(strings.Join(x.log, "\n"))
	c.Sample(map[string]any{"events": x.log})
	return nil
}

func init() { Registry["C13"] = c13Run }
