package prop

import (
	"fmt"
	"strings"
	"time"

	"verif/sim/cisco"
	"verif/sim/tape"
)

// resumeFrom: the device is in state st (reached by a prefix of the first
// script); approve is run again and must converge.
func (c *Ctx) resumeFrom(cs *CiscoCase, st *cisco.Conf, cut string) (key, msg string, in map[string]any) {
	sc := cisco.ScopeOf(cs.B)
	dev := cisco.Print(st, cs.PO)
	in = map[string]any{"cut": cut, "device_at_cut": strings.Split(dev, "\n")}
	p := c.PlanCompare(cs.Kind, dev, cs.Files)
	if p.Panic != "" {
		return "resume-panic|" + panicFunc(p.Panic), "second approve panics on the partially changed device: " + firstLine(p.Panic), in
	}
	if p.Exit != 0 {
		e := errorLine(p.Stderr)
		return "resume-rejected|" + errorClass(e), "second approve rejects the partially changed device: " + e, in
	}
	in["script2"] = scriptText(p.Script)
	n := cisco.NewNode(st.Clone())
	n.InConfig = true
	for i, cmd := range p.Script {
		if rej, _ := n.Exec(cmd.Line); rej != "" {
			return "resume-command-rejected|" + rejectKind(rej) + "|" + cmdKind(cmd.Line),
				fmt.Sprintf("second script, command %d %q: %s", i+1, cmd.Line, rej), in
		}
	}
	if d := cisco.DiffCanon(cisco.Canon(n.Conf, sc), cisco.Canon(cs.B, sc)); d != "" {
		k := "resume-state-differs|" + diffKind(d)
		if cs.Kind == "IOS" && hasRemarks(cs) {
			k += "|acl-with-remarks"
		}
		return k, "after the second approve: " + d, in
	}
	if msg, p3 := c.Recompare(cs, n.Conf, nil); msg != "" {
		in["script3"] = scriptText(p3.Script)
		k3 := script2KindOn(p3, n.Conf)
		return "resume-recompare-nonempty|" + k3 + identicalGroupsNote(st, k3), msg, in
	}
	return "", "", in
}

func c10Run(c *Ctx, tp *tape.Tape, extra map[string]any) *Failure {
	kind := "ASA"
	if tp.Next(2) == 1 {
		kind = "IOS"
	}
	cs := GenCiscoCase(tp, kind)
	dev := ciscoPrint(cs)
	p := c.PlanCompare(kind, dev, cs.Files)
	if p.Panic != "" || p.Exit != 0 {
		c.Count("not_accepted", 1)
		return nil
	}
	o := ExecPlan(cs, p, true, false)
	if len(o.Rejects) > 0 {
		c.Count("skipped_rejected_script", 1)
		return nil
	}
	if len(p.Script) == 0 {
		c.Count("empty_script", 1)
		return nil
	}
	c.NonTrivial(dev, cs.Files["router"])
	c.Sample(map[string]any{"kind": kind, "script": scriptText(p.Script), "cuts": len(o.States)})
	mk := func(key, msg string, in map[string]any) *Failure {
		full := cs.Input()
		for k, v := range in {
			full[k] = v
		}
		full["script"] = scriptText(p.Script)
		return &Failure{Key: kind + "|" + key, Msg: msg, Input: full, Extra: map[string]any{"cut": in["cutidx"]}}
	}
	only := -1
	if extra != nil {
		only = toInt(extra["cut"])
	}
	// Every prefix, including the cut between the halves of a joined line.
	for k := 0; k < len(o.States); k++ {
		if only >= 0 && k != only {
			continue
		}
		cut := fmt.Sprintf("after %d of %d commands", k, len(p.Script))
		if !o.Boundary[k] {
			cut += " (between the halves of a joined line)"
		}
		c.Res.Evaluations++
		c.Count("cuts", 1)
		if !o.Boundary[k] {
			c.Count("cuts_inside_joined_line", 1)
		}
		key, msg, in := c.resumeFrom(cs, o.States[k], cut)
		in["cutidx"] = k
		if key != "" && !c.NoteKnown(kind+"|"+key) {
			return mk(key, msg, in)
		}
		if c.TimeUp() {
			return nil
		}
	}
	// Live: a real session is cut by a dropped connection, a second real
	// session follows.
	if only >= 0 || tp.Next(4) != 0 {
		return nil
	}
	lo := DefaultLiveOpts(tp)
	lo.Compare = false
	base := c.LiveCisco(cs, lo, tape.Replay(nil))
	var changeK []int
	for _, rec := range base.Dev.Transcr {
		if rec.Class == "change" {
			changeK = append(changeK, rec.K)
		}
	}
	if base.Res.Exit != 0 || len(changeK) == 0 {
		return nil
	}
	at := changeK[tp.Next(len(changeK))]
	waitReload := kind == "IOS" && tp.Next(2) == 0
	lo1 := lo
	lo1.Faults = []cisco.Fault{{At: at, Kind: "close"}}
	r1 := c.LiveCisco(cs, lo1, tape.Replay(nil))
	c.Count("live_cuts", 1)
	st := r1.Dev.Node.Conf
	startup := r1.Dev.Startup
	if waitReload || (kind == "IOS" && !r1.Dev.ReloadAt.IsZero()) {
		// The guard fires: the router reloads its startup configuration.
		st = startup.Clone()
		c.Count("live_cuts_reload_fired", 1)
	}
	cs2 := *cs
	cs2.A = st.Clone()
	lo2 := lo
	lo2.Startup = startup
	r2 := c.LiveCisco(&cs2, lo2, tape.Replay(nil))
	_ = time.Second
	sc := cisco.ScopeOf(cs.B)
	in := map[string]any{"cut": fmt.Sprintf("connection closed at dialogue line %d", at),
		"device_at_cut": strings.Split(cisco.Print(st, cs.PO), "\n"), "cutidx": -1,
		"stderr2": strings.Split(r2.Res.Stderr+r2.RunLog, "\n")}
	if r2.Res.Exit != 0 || r2.Res.Panic != "" {
		e := errorLine(r2.RunLog + "\n" + r2.Res.Stderr + "\n" + r2.Res.Panic)
		if k := "live-resume-failed|" + errorClass(e); !c.NoteKnown(kind + "|" + k) {
			return mk(k, "second session fails: "+e, in)
		}
		return nil
	}
	if d := cisco.DiffCanon(cisco.Canon(r2.Dev.Node.Conf, sc), cisco.Canon(cs.B, sc)); d != "" {
		k := "live-resume-state-differs|" + diffKind(d)
		if kind == "IOS" && hasRemarks(cs) {
			k += "|acl-with-remarks"
		}
		if !c.NoteKnown(kind + "|" + k) {
			return mk(k, "after the second session: "+d, in)
		}
	}
	return nil
}

func init() { Registry["C10"] = c10Run }

func errorLine(stderr string) string {
	for _, l := range strings.Split(stderr, "\n") {
		if strings.HasPrefix(l, "ERROR>>>") || strings.HasPrefix(l, "Error:") {
			return l
		}
	}
	return firstLine(stderr)
}

func errorClass(e string) string {
	switch {
	case strings.Contains(e, "Missing peer or dynamic in crypto map"):
		return "crypto-entry-without-peer"
	case strings.Contains(e, "references unknown"):
		return "dangling-reference"
	case strings.Contains(e, "not known on device"):
		return "unknown-interface"
	}
	return firstWords(strings.TrimPrefix(e, "ERROR>>> "), 3)
}
