package prop

import (
	"fmt"
	"hash/fnv"
	"math/rand/v2"
	"os"
	"path/filepath"
	"sort"
	"strings"

	"github.com/hknutzen/Netspoc-Approve/go/pkg/drc"
	"github.com/hknutzen/Netspoc-Approve/go/pkg/verifmap"
	"verif/gen"
	"verif/sim/cisco"
	"verif/sim/tape"
	"verif/sim/world"
)

// mapSchedule installs one map-iteration schedule.  mode 0 ascending,
// 1 descending, >=2 seeded shuffle; only != "" restricts the permutation to
// one site (all others ascending).
func mapSchedule(mode int, only string) {
	if mode == 0 {
		verifmap.Choose = nil
		return
	}
	calls := map[string]int{}
	verifmap.Choose = func(site string, n int) []int {
		if only != "" && site != only {
			return nil
		}
		p := make([]int, n)
		for i := range p {
			p[i] = i
		}
		if mode == 1 {
			for i, j := 0, n-1; i < j; i, j = i+1, j-1 {
				p[i], p[j] = p[j], p[i]
			}
			return p
		}
		h := fnv.New64a()
		h.Write([]byte(site))
		calls[site]++
		r := rand.New(rand.NewPCG(uint64(mode), h.Sum64()+uint64(calls[site])))
		r.Shuffle(n, func(i, j int) { p[i], p[j] = p[j], p[i] })
		return p
	}
}

type planOut struct {
	exit          int
	stdout, diags string
	panicMsg      string
}

func (c *Ctx) planUnder(model, devText string, files map[string]string, info string, mode int, only string) planOut {
	w, err := world.New(c.Root, world.Opts{Model: model, Files: files, Info: info})
	if err != nil {
		c.T.Fatal(err)
	}
	defer os.RemoveAll(w.Dir)
	devFile := filepath.Join(w.Dir, "device")
	os.WriteFile(devFile, []byte(devText), 0644)
	mapSchedule(mode, only)
	defer mapSchedule(0, "")
	res := w.Call([]string{"drc", devFile, w.CodeFile()}, drc.Main)
	var diags []string
	for _, l := range strings.Split(res.Stderr, "\n") {
		if strings.HasPrefix(l, "WARNING>>>") || strings.HasPrefix(l, "ERROR>>>") {
			diags = append(diags, l)
		}
	}
	return planOut{res.Exit, strings.ReplaceAll(res.Stdout, w.Dir, "DIR"),
		strings.ReplaceAll(strings.Join(diags, "\n"), w.Dir, "DIR"), strings.ReplaceAll(firstLine(res.Panic), w.Dir, "DIR")}
}

func siteFunc(site string) string {
	// "cisco/diff.go:findGroupOnDevice:1159" -> "cisco.findGroupOnDevice"
	f := strings.Split(site, ":")
	if len(f) >= 2 {
		pkg, _, _ := strings.Cut(f[0], "/")
		return pkg + "." + f[1]
	}
	return site
}

// checkDeterminism runs one input under K map schedules.
func (c *Ctx) checkDeterminism(model, devText string, files map[string]string, info string, k int, seed int) (key, msg string, detail map[string]any) {
	for s := range verifmap.Sites {
		delete(verifmap.Sites, s)
	}
	ref := c.planUnder(model, devText, files, info, 0, "")
	var sites []string
	for s := range verifmap.Sites {
		sites = append(sites, s)
	}
	sort.Strings(sites)
	c.Count("map_sites_with_choice", len(sites))
	for i := 1; i <= k; i++ {
		mode := i
		if i >= 2 {
			mode = seed*31 + i
		}
		got := c.planUnder(model, devText, files, info, mode, "")
		c.Res.Evaluations++
		if got == ref {
			continue
		}
		// Which single site is responsible?
		culprit := "multi-site"
		for _, s := range sites {
			if c.planUnder(model, devText, files, info, mode, s) != ref {
				culprit = siteFunc(s)
				break
			}
		}
		what := "script"
		switch {
		case got.exit != ref.exit:
			what = "exit-status"
		case got.stdout == ref.stdout:
			what = "diagnostics"
		}
		return fmt.Sprintf("%s|%s|%s", model, culprit, what),
			fmt.Sprintf("output depends on map iteration order (schedule %d): %s differs", mode, what),
			map[string]any{"ascending_stdout": strings.Split(ref.stdout, "\n"), "ascending_diags": ref.diags,
				"permuted_stdout": strings.Split(got.stdout, "\n"), "permuted_diags": got.diags,
				"exit": []int{ref.exit, got.exit}}
	}
	return "", "", nil
}

func c16Driver(c *Ctx) {
	k := 6
	if !c.Quick {
		k = 12
	}
	// Leg 1: every (DEVICE, NETSPOC) pair of the repository's test data.
	corpus, err := Corpus()
	if err != nil {
		c.HarnessError("corpus: %v", err)
		return
	}
	idx := 0
	for _, cc := range corpus {
		if cc.Device == "" && cc.Scen != "" {
			continue
		}
		idx++
		if idx%c.NWorkers != c.Worker {
			continue
		}
		if cc.File == "ios_long-acl.t" && c.Quick {
			continue
		}
		info := ""
		if v, ok := cc.Files["router.info"]; ok {
			info = v
		}
		files := map[string]string{}
		for n, v := range cc.Files {
			if n != "router.info" {
				files[n] = v
			}
		}
		key, msg, det := c.checkDeterminism(cc.Model, cc.Device, files, info, k, 7)
		c.Count("corpus_inputs", 1)
		c.NonTrivial(cc.File, cc.Title)
		if key != "" && !c.NoteKnown(key) {
			det["title"] = cc.File + ": " + cc.Title
			det["device"] = strings.Split(cc.Device, "\n")
			det["netspoc"] = strings.Split(cc.Netspoc, "\n")
			c.handle(func(*Ctx, *tape.Tape, map[string]any) *Failure {
				k2, m2, d2 := c.checkDeterminism(cc.Model, cc.Device, files, info, k, 7)
				if k2 == "" {
					return nil
				}
				return &Failure{Key: k2, Msg: m2, Input: d2, Extra: map[string]any{"corpus": cc.File + "|" + cc.Title}}
			}, -1, nil, &Failure{Key: key, Msg: msg, Input: det, Extra: map[string]any{"corpus": cc.File + "|" + cc.Title}})
		}
	}
	// Leg 2: generated tie-heavy cisco inputs.
	c.Loop(c16Gen)
}

func c16Gen(c *Ctx, tp *tape.Tape, extra map[string]any) *Failure {
	if extra != nil && extra["corpus"] != nil {
		want := fmt.Sprint(extra["corpus"])
		corpus, _ := Corpus()
		for _, cc := range corpus {
			if cc.File+"|"+cc.Title == want {
				files := map[string]string{}
				info := ""
				for n, v := range cc.Files {
					if n == "router.info" {
						info = v
					} else {
						files[n] = v
					}
				}
				k, m, d := c.checkDeterminism(cc.Model, cc.Device, files, info, 12, 7)
				if k != "" {
					return &Failure{Key: k, Msg: m, Input: d, Extra: extra}
				}
			}
		}
		return nil
	}
	switch tp.Next(7) {
	case 3:
		return c16Other(c, tp, "Linux")
	case 4:
		return c16Other(c, tp, "PAN-OS")
	case 5:
		return c16Other(c, tp, "NSX")
	}
	kind := "ASA"
	if tp.Next(3) == 0 {
		kind = "IOS"
	}
	cs := GenCiscoCaseK(tp, kind, func(k *gen.Knobs) {
		if kind == "ASA" && k.MaxGroups < 2 {
			k.MaxGroups = 2
		}
		k.MaxEdits += 3
		if tp.Next(5) == 0 {
			k.DropIfaces = true
			k.MaxIfaces = 3
		}
	})
	dev := cisco.Print(cs.A, cs.PO)
	kk := 4
	if !c.Quick {
		kk = 8
	}
	key, msg, det := c.checkDeterminism(kind, dev, cs.Files, "", kk, 1+tp.Next(1000))
	c.NonTrivial(dev, cs.Files["router"])
	c.Sample(map[string]any{"kind": kind, "ops": cs.Ops, "schedules": kk})
	if key != "" {
		in := cs.Input()
		for k, v := range det {
			in[k] = v
		}
		return &Failure{Key: key, Msg: msg, Input: in}
	}
	return nil
}

func init() {
	Registry["C16"] = c16Gen
	Drivers["C16"] = c16Driver
}

// c16Other: tie-heavy inputs for the other device types, planned through
// "drc DEVICE-FILE CODE-FILE".
func c16Other(c *Ctx, tp *tape.Tape, model string) *Failure {
	var dev string
	var files map[string]string
	var input map[string]any
	switch model {
	case "Linux":
		cs := GenLinuxCase(tp)
		dev, files, input = cs.DeviceText(), cs.Files, cs.Input()
	case "PAN-OS":
		cs := GenPanCase(tp)
		// Ties: several identical unused address-groups on the device while
		// the target needs a group with these members for a rule the device lacks.
		if tp.Next(2) == 0 && len(cs.B[0].Groups) > 0 {
			g := cs.B[0].Groups[tp.Next(len(cs.B[0].Groups))]
			a := cs.A.Vsys[0]
			var rules []gen.PRule
			for _, r := range a.Rules {
				uses := false
				for _, l := range [][]string{r.Src, r.Dst} {
					for _, m := range l {
						if strings.HasPrefix(m, g.Name) {
							uses = true
						}
					}
				}
				if !uses {
					rules = append(rules, r)
				}
			}
			a.Rules = rules
			var groups []gen.PGroup
			for _, x := range a.Groups {
				if !strings.HasPrefix(x.Name, g.Name) {
					groups = append(groups, x)
				}
			}
			for _, n := range []string{"zz-" + g.Name, "aa-" + g.Name, "mm-" + g.Name} {
				groups = append(groups, gen.PGroup{Name: n, Members: append([]string(nil), g.Members...)})
			}
			a.Groups = groups
			for _, m := range g.Members {
				found := false
				for _, ad := range a.Addrs {
					if ad.Name == m {
						found = true
					}
				}
				if !found {
					for _, ad := range cs.B[0].Addrs {
						if ad.Name == m {
							a.Addrs = append(a.Addrs, ad)
						}
					}
				}
			}
		}
		dev, files, input = gen.PanDeviceXML(cs.A, cs.Spell), cs.Files, cs.Input()
	case "NSX":
		cs := GenNsxCase(tp)
		if tp.Next(2) == 0 && len(cs.B.Groups) > 0 {
			g := cs.B.Groups[tp.Next(len(cs.B.Groups))]
			// Rules using g are missing on the device, identical unused copies exist.
			for pi := range cs.A.Policies {
				var rules []gen.NRule
				for _, r := range cs.A.Policies[pi].Rules {
					if !strings.HasPrefix(r.Src, gen.NGrp+g.ID) && !strings.HasPrefix(r.Dst, gen.NGrp+g.ID) {
						rules = append(rules, r)
					}
				}
				cs.A.Policies[pi].Rules = rules
			}
			var groups []gen.NGroup
			for _, x := range cs.A.Groups {
				if !strings.HasPrefix(x.ID, g.ID) {
					groups = append(groups, x)
				}
			}
			for _, n := range []string{g.ID + "-zz", g.ID + "-aa", g.ID + "-mm"} {
				groups = append(groups, gen.NGroup{ID: n, IPs: append([]string(nil), g.IPs...)})
			}
			cs.A.Groups = groups
		}
		dev, files, input = cs.A.NetspocJSON(), cs.Files, cs.Input()
	}
	kk := 4
	if !c.Quick {
		kk = 8
	}
	key, msg, det := c.checkDeterminism(model, dev, files, "", kk, 1+tp.Next(1000))
	c.NonTrivial(dev, files["router"])
	c.Count("inputs_"+model, 1)
	if key != "" {
		for k, v := range det {
			input[k] = v
		}
		return &Failure{Key: key, Msg: msg, Input: input}
	}
	return nil
}
