package prop

import (
	"fmt"
	"strings"
	"time"

	"verif/sim/cisco"
	"verif/sim/tape"
)

// faultKindsFor lists the fault kinds applicable at a dialogue position of
// the given class.
func faultKindsFor(class string, line string) []string {
	switch class {
	case "login":
		if line == "<password>" {
			return []string{"stall", "close", "auth-reject"}
		}
		return []string{"stall", "close", "close-after-echo", "error-text"}
	case "change":
		return []string{"stall", "close", "close-after-echo", "error-text", "garbage-output",
			"garbled-echo", "warning-output", "info-output", "slow", "warning-then-error"}
	case "save":
		return []string{"stall", "close", "error-text", "save-no-ok", "save-too-large", "garbage-output", "slow"}
	case "confmode", "guard":
		return []string{"stall", "close", "close-after-echo"}
	case "read":
		if line == "write term" || line == "sh run" {
			// configuration retrieval
			return []string{"stall", "close", "close-after-echo", "garbled-echo", "slow", "error-text", "garbage-output"}
		}
		return []string{"stall", "close", "close-after-echo", "garbled-echo", "slow"}
	case "session", "prep", "cleanup":
		return []string{"stall", "close"}
	}
	return []string{"stall", "close"}
}

// judgeFault applies the oracles of C09 to one faulted run.
func judgeFault(r *LiveResult, o LiveOpts, f cisco.Fault, approve bool) (key, msg string) {
	d := r
	kind := r.Kind
	pre := fmt.Sprintf("%s|%s|", kind, o.Front)
	if r.Trouble != "" {
		return pre + "no-exit|" + f.Kind, "tool goroutines never ended: " + r.Trouble
	}
	if r.Res.Panic != "" {
		return pre + "panic|" + f.Kind + "|" + panicFunc(r.Res.Panic), firstLine(r.Res.Panic)
	}
	phase := "?"
	for _, rec := range d.Transcr {
		if rec.Fault != "" {
			phase = rec.Class
			break
		}
	}
	disturbed := d.FaultSeq >= 0
	if !disturbed {
		return "", ""
	}
	sfx := phase + "|" + f.Kind
	for _, rec := range d.Transcr {
		if rec.Seq <= d.FaultSeq || rec.Buffered || rec.Fault != "" {
			continue
		}
		switch rec.Class {
		case "change":
			return pre + "script-after-fault|" + sfx,
				fmt.Sprintf("change command %q sent after the device failed at k=%d (%s)", rec.Line, d.FaultK, f.Kind)
		case "save":
			return pre + "save-after-fault|" + sfx,
				fmt.Sprintf("%q sent after the device failed at k=%d (%s)", rec.Line, d.FaultK, f.Kind)
		}
	}
	if r.Res.Exit == 0 {
		return pre + "exit-0|" + sfx, fmt.Sprintf("exit status 0 although the device failed at k=%d (%s)", d.FaultK, f.Kind)
	}
	// Bounded liveness: the tool gives up within 5*timeout+10s of simulated time.
	ft := timeOfSeq(r.Log, d.FaultSeq)
	if lim := time.Duration(5*o.Timeout+10) * time.Second; r.EndAt-ft > lim {
		return pre + "slow-exit|" + sfx, fmt.Sprintf("tool needed %v of simulated time after the fault (limit %v)", r.EndAt-ft, lim)
	}
	if o.Front == "do-approve" {
		if r.Status == nil {
			return pre + "status-missing|" + sfx, "no status file written"
		}
		if approve && r.Status.Approve.Result != "FAILED" {
			return pre + "status-wrong|" + sfx, fmt.Sprintf("approve status is %q, expected FAILED", r.Status.Approve.Result)
		}
		if !approve && r.Status.Compare.Result != "DIFF" {
			return pre + "status-wrong|" + sfx, fmt.Sprintf("compare status is %q, expected DIFF", r.Status.Compare.Result)
		}
		h := strings.TrimSpace(r.History)
		if !strings.HasSuffix(h, "END: FAILED") {
			return pre + "no-END-FAILED|" + sfx, "history does not end with END: FAILED: " + lastLine(h)
		}
		if !strings.Contains(r.RunLog, "ERROR>>>") {
			return pre + "no-diagnostic|" + sfx, "run log has no ERROR>>> line"
		}
	} else if !strings.Contains(r.Res.Stderr, "ERROR>>>") && !strings.Contains(r.Res.Stderr, "Error:") {
		return pre + "no-diagnostic|" + sfx, "stderr has no diagnostic"
	}
	return "", ""
}

func lastLine(s string) string {
	l := strings.Split(strings.TrimSpace(s), "\n")
	return l[len(l)-1]
}

// judgeOK: OK is recorded only if every command was accepted and the save
// was confirmed.
func judgeOK(r *LiveResult, o LiveOpts, approve bool) (key, msg string) {
	d := r
	kind := r.Kind
	pre := fmt.Sprintf("%s|%s|", kind, o.Front)
	ok := r.Res.Exit == 0
	if o.Front == "do-approve" && approve {
		ok = r.Status != nil && r.Status.Approve.Result == "OK"
		if ok != (r.Res.Exit == 0) {
			return pre + "status-vs-exit", fmt.Sprintf("status %v but exit %d", r.Status, r.Res.Exit)
		}
	}
	if !ok || !approve {
		return "", ""
	}
	changes := 0
	lastChange, lastSave := -1, -1
	for _, rec := range d.Transcr {
		if rec.Class == "change" {
			changes++
			lastChange = rec.Seq
			if rec.Reject != "" {
				return pre + "ok-with-rejected-command", fmt.Sprintf("OK reported although the device rejected %q: %s", rec.Line, rec.Reject)
			}
			if rec.Fault != "" && isHardFault(rec.Fault) {
				return pre + "ok-with-failed-command|" + rec.Fault, fmt.Sprintf("OK reported although the device answered %q with %s", rec.Line, rec.Fault)
			}
		}
		if rec.Class == "save" {
			lastSave = rec.Seq
		}
	}
	if changes > 0 && r.Dev != nil {
		if r.Dev.Saved == 0 || lastSave < lastChange {
			return pre + "ok-without-save", "OK reported, changes were sent, but the device did not confirm a save afterwards"
		}
		if !r.Dev.RunningEqualsStartup() {
			return pre + "ok-unsaved", "OK reported but running and startup configuration differ"
		}
	}
	if r.Dev != nil && r.Dev.ReloadFired {
		return pre + "ok-after-reload", "OK reported although the scheduled reload fired"
	}
	if r.Dev != nil && !r.Dev.ReloadAt.IsZero() {
		return pre + "ok-reload-pending", "OK reported but a reload is still scheduled on the device"
	}
	if changes > 0 && r.LDev != nil {
		if msg := linuxSaved(r); msg != "" {
			return pre + "ok-without-save", msg
		}
	}
	return "", ""
}

func isHardFault(k string) bool {
	switch k {
	case "error-text", "garbage-output", "garbled-echo":
		return true
	}
	return false
}

// C09: every fault kind at every dialogue position.
func c09Run(c *Ctx, tp *tape.Tape, extra map[string]any) *Failure {
	kind := "ASA"
	if tp.Next(2) == 1 {
		kind = "IOS"
	}
	cs := GenCiscoCase(tp, kind)
	o := DefaultLiveOpts(tp)
	approve := tp.Next(4) != 0
	o.Compare = !approve
	sched := tp // chunking / latency choices come from the same tape, after the case
	mkFail := func(key, msg string, r *LiveResult, f *cisco.Fault) *Failure {
		in := cs.Input()
		in["opts"] = fmt.Sprintf("%+v", o)
		in["stderr"] = strings.Split(r.Res.Stderr, "\n")
		in["status"] = r.Files["status/router"]
		in["history"] = strings.Split(r.History, "\n")
		ex := map[string]any{}
		if f != nil {
			ex["fault"] = map[string]any{"at": f.At, "kind": f.Kind, "arg": f.Arg}
		} else {
			ex["fault"] = map[string]any{"at": 0, "kind": "none", "arg": 0}
		}
		return &Failure{Key: key, Msg: msg, Input: in, Extra: ex, Log: tail(r.Log, 80)}
	}
	if extra != nil {
		fm, _ := extra["fault"].(map[string]any)
		f := cisco.Fault{At: toInt(fm["at"]), Kind: fmt.Sprint(fm["kind"]), Arg: toInt(fm["arg"])}
		// Re-create the tape position of the scheduled run: base run first.
		mark := tape.Replay(tp.Used())
		_ = mark
		oo := o
		if f.Kind != "none" {
			oo.Faults = []cisco.Fault{f}
		}
		r := c.LiveCisco(cs, oo, tape.Replay(nil))
		if f.Kind != "none" {
			if k, m := judgeFault(r, oo, f, approve); k != "" {
				return mkFail(k, m, r, &f)
			}
		}
		if k, m := judgeOK(r, oo, approve); k != "" {
			return mkFail(k, m, r, &f)
		}
		return nil
	}
	_ = sched
	base := c.LiveCisco(cs, o, tape.Replay(nil))
	if base.Trouble != "" {
		return mkFail(kind+"|"+o.Front+"|no-exit|none", base.Trouble, base, nil)
	}
	if base.Res.Panic != "" {
		return mkFail(kind+"|"+o.Front+"|panic|none|"+panicFunc(base.Res.Panic), firstLine(base.Res.Panic), base, nil)
	}
	if k, m := judgeOK(base, o, approve); k != "" {
		return mkFail(k, m, base, nil)
	}
	c.Count("base_runs", 1)
	if base.Res.Exit != 0 {
		c.Count("base_not_accepted", 1)
		return nil
	}
	nChange := 0
	for _, rec := range base.Dev.Transcr {
		if rec.Class == "change" {
			nChange++
		}
	}
	if nChange > 0 {
		c.NonTrivial(cisco.Print(cs.A, nil), cs.Files["router"], fmt.Sprint(o.Front, approve))
	}
	c.Sample(map[string]any{"front": o.Front, "approve": approve, "kind": kind,
		"dialogue_lines": base.Dev.K(), "change_commands": nChange, "transcript_tail": tail(base.Log, 12)})
	// Enumerate faults: every position x every applicable kind.
	type pos struct {
		k     int
		class string
		line  string
	}
	var positions []pos
	for _, rec := range base.Dev.Transcr {
		positions = append(positions, pos{rec.K, rec.Class, rec.Line})
	}
	// Quick tier: every position, but only a rotating subset of kinds.
	for pi, p := range positions {
		kinds := faultKindsFor(p.class, p.line)
		for ki, fk := range kinds {
			if c.Quick && (pi+ki)%3 != int(uint(len(tp.Rec))%3) {
				continue
			}
			f := cisco.Fault{At: p.k, Kind: fk}
			if fk == "slow" {
				f.Arg = o.Timeout / 2
			}
			oo := o
			oo.Faults = []cisco.Fault{f}
			r := c.LiveCisco(cs, oo, tape.Replay(nil))
			c.Res.Evaluations++
			c.Count("faults_configured:"+fk, 1)
			if r.Dev.FaultsFired[fk] > 0 {
				c.Count("faults_fired:"+fk, 1)
				if p.class == "change" || p.class == "save" || p.class == "guard" {
					c.Count("faults_in_flight:"+fk, 1)
				}
			}
			if k, m := judgeFault(r, oo, f, approve); k != "" {
				if !c.NoteKnown(k) {
					return mkFail(k, m, r, &f)
				}
				continue
			}
			if k, m := judgeOK(r, oo, approve); k != "" && !c.NoteKnown(k) {
				return mkFail(k, m, r, &f)
			}
			if c.TimeUp() {
				return nil
			}
		}
	}
	return nil
}

func toInt(v any) int {
	switch x := v.(type) {
	case float64:
		return int(x)
	case int:
		return x
	}
	return 0
}

func init() {
	Registry["C09"] = c09Run
}
