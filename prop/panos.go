package prop

import (
	"fmt"
	"net/http"
	"os"
	"path/filepath"
	"regexp"
	"strings"
	"time"

	"github.com/hknutzen/Netspoc-Approve/go/pkg/doapprove"
	"github.com/hknutzen/Netspoc-Approve/go/pkg/drc"
	"github.com/hknutzen/Netspoc-Approve/go/pkg/verifhook"
	"verif/gen"
	"verif/sim/evlog"
	"verif/sim/panosdev"
	"verif/sim/tape"
	"verif/sim/world"
)

type PanCase struct {
	B       []*gen.PVsys // target vsys (all in the v4 file unless split)
	A       *gen.PConf   // device
	Files   map[string]string
	Ops     []string
	Spell   int
	Foreign []string // names of device vsys the target is silent about
}

func GenPanCase(tp *tape.Tape) *PanCase {
	cs := &PanCase{}
	names := []string{"vsys1", "vsys2", "vsys3"}
	n := 1 + tp.Next(2)
	cs.A = &gen.PConf{Hostname: "router"}
	for i := 0; i < n; i++ {
		b := gen.GenPanTarget(tp, names[i])
		cs.B = append(cs.B, b)
		a, ops := gen.DerivePanDevice(tp, b)
		cs.Ops = append(cs.Ops, ops...)
		cs.A.Vsys = append(cs.A.Vsys, a)
	}
	if tp.Chance(1, 3) {
		// A vsys the target does not mention, with content of its own.
		f := gen.GenPanTarget(tp, "vsys9")
		f.Display = []string{"other-tenant", "tenant-B (managed by another Netspoc instance)"}[tp.Next(2)]
		cs.A.Vsys = append(cs.A.Vsys, f)
		cs.Foreign = append(cs.Foreign, "vsys9")
		cs.Ops = append(cs.Ops, "foreign vsys9 on device")
	}
	if tp.Chance(1, 3) {
		cs.A.Shared = `<address><entry name="SHARED_NET"><ip-netmask>10.200.0.0/16</ip-netmask></entry></address>`
		cs.Ops = append(cs.Ops, "shared objects on device")
	}
	if tp.Chance(1, 2) {
		cs.Spell = 1
	}
	cs.Files = map[string]string{"router": gen.PanNetspocXML(cs.B)}
	return cs
}

func (cs *PanCase) Input() map[string]any {
	return map[string]any{"device": splitXML(gen.PanDeviceXML(cs.A, cs.Spell)), "target": splitXML(cs.Files["router"]), "ops": cs.Ops}
}

func splitXML(s string) []string {
	s = strings.ReplaceAll(s, "<entry ", "\n<entry ")
	return strings.Split(s, "\n")
}

func (cs *PanCase) Node() *panosdev.Node {
	cfg, err := panosdev.ParseXML(gen.PanDeviceXML(cs.A, cs.Spell))
	if err != nil || len(cfg.Kids) != 1 {
		panic(fmt.Sprintf("generator produced bad XML: %v", err))
	}
	return panosdev.NewNode(cfg.Kids[0])
}

func (cs *PanCase) TargetTree() *panosdev.X {
	cfg, err := panosdev.ParseXML(cs.Files["router"])
	if err != nil || len(cfg.Kids) != 1 {
		panic(fmt.Sprintf("generator produced bad XML: %v", err))
	}
	return cfg.Kids[0]
}

type PanResult struct {
	Res     world.Result
	Node    *panosdev.Node
	Trouble string
	Log     []string
	Files   map[string]string
	Status  *Status
	History string
	RunLog  string
	EndAt   time.Duration
}

type PanOpts struct {
	Front    string
	Compare  bool
	Timeout  int
	Password string
	Info     string
	Backup   bool // first address of the name/ip list is unreachable
}

// LivePan runs the real tool against the PAN-OS node inside a bubble.
func (c *Ctx) LivePan(files map[string]string, node *panosdev.Node, o PanOpts) *PanResult {
	pw := o.Password
	if pw == "" {
		pw = "secret"
	}
	node.Password = pw
	info := o.Info
	if info == "" && o.Backup {
		info = `{"model":"PAN-OS","name_list":["router-a","router"],"ip_list":["10.1.13.32","10.1.13.33"]}` + "\n"
	}
	w, err := world.New(c.Root, world.Opts{Model: "PAN-OS", Files: files, Info: info, Timeout: o.Timeout, Password: pw})
	if err != nil {
		c.T.Fatal(err)
	}
	defer os.RemoveAll(w.Dir)
	log := evlog.New()
	node.Log = log
	r := &PanResult{Node: node}
	var args []string
	mainFn := drc.Main
	if o.Front == "drc" {
		args = []string{"drc", "-L", w.LogDir()}
		if o.Compare {
			args = append(args, "-C")
		}
		args = append(args, w.CodeFile())
	} else {
		mainFn = doapprove.Main
		args = []string{"do-approve"}
		if o.Compare {
			args = append(args, "compare", w.DevName)
		} else {
			args = append(args, "approve", w.DevName)
		}
	}
	dead := panosdev.NewNode(node.Cand.Clone())
	dead.Unreach = true
	dead.Log = log
	r.Trouble = world.Bubble(c.T, func() {
		log.Start()
		verifhook.HTTP = func(timeout, loginTimeout time.Duration, ip string) (*http.Client, string) {
			log.Add("tool", "http client for %s", ip)
			if o.Backup && ip == "10.1.13.32" {
				return dead.Client(timeout), "https://" + ip
			}
			return node.Client(timeout), "https://" + ip
		}
		defer func() { verifhook.HTTP = nil }()
		r.Res = w.Call(args, mainFn)
		r.EndAt = log.Elapsed()
		log.Add("tool", "exit %d", r.Res.Exit)
	})
	r.Log = log.Copy()
	r.Files = world.Snapshot(w.Dir)
	if data, ok := r.Files["status/"+w.DevName]; ok {
		var st Status
		if jsonUnmarshal([]byte(data), &st) == nil {
			r.Status = &st
		}
	}
	r.History = r.Files["history/"+w.DevName]
	suffix := ".drc"
	if o.Compare {
		suffix = ".compare"
	}
	r.RunLog = r.Files[filepath.Join("policies", w.Policy, "log", w.DevName+suffix)]
	for k, v := range r.Files {
		r.Files[k] = strings.ReplaceAll(v, w.Dir, "BASEDIR")
	}
	r.Res.Stdout = strings.ReplaceAll(r.Res.Stdout, w.Dir, "BASEDIR")
	r.Res.Stderr = strings.ReplaceAll(r.Res.Stderr, w.Dir, "BASEDIR")
	c.Res.SimSeconds += r.EndAt.Seconds()
	c.EventHash(log.Hash())
	dumpLog(log.Hash(), log.Copy())
	return r
}

// panConverge is the shared run for C03, C07 (PAN-OS part) and C08 (PAN-OS part).
func panConverge(prop string) RunFunc {
	return func(c *Ctx, tp *tape.Tape, _ map[string]any) *Failure {
		cs := GenPanCase(tp)
		node := cs.Node()
		node.JobPend = tp.Next(4)
		o := PanOpts{Front: []string{"do-approve", "drc"}[tp.Next(2)], Timeout: 60, Backup: tp.Chance(1, 5)}
		return panJudgeConverge(c, cs, node, o, prop, "")
	}
}

// panJudgeConverge runs one approve session onto node and applies the oracles
// of C03 (or C07 / C08); pre prefixes the oracle clause in the key.
func panJudgeConverge(c *Ctx, cs *PanCase, node *panosdev.Node, o PanOpts, prop, pre string) *Failure {
	{
		before := &panosdev.Node{Cand: node.Cand.Clone()} // pristine copy for comparisons
		r := c.LivePan(cs.Files, node, o)
		fail := func(key, msg string) *Failure {
			// A service-group that exists on the device gets its new member
			// list by action=set, which merges: name that circumstance.
			if strings.Contains(key, "service") && sgSetOnExisting(r.Node.Transcr, before.Cand) {
				key += "|service-group-members-set"
			}
			in := cs.Input()
			in["stderr"] = strings.Split(r.Res.Stderr+"\n"+r.RunLog, "\n")
			var reqs []string
			for _, rec := range r.Node.Transcr {
				if rec.Class == "script" {
					reqs = append(reqs, unescape(rec.Req))
				}
			}
			in["script"] = reqs
			return &Failure{Key: "PAN-OS|" + pre + key, Msg: msg, Input: in, Log: tail(r.Log, 60)}
		}
		if r.Trouble != "" {
			return fail("no-exit", r.Trouble)
		}
		if r.Res.Panic != "" {
			return fail("tool-panic|"+panicFunc(r.Res.Panic), firstLine(r.Res.Panic))
		}
		nScript := 0
		var firstReject *panosdev.Rec
		for i, rec := range r.Node.Transcr {
			if rec.Class == "script" {
				nScript++
				if rec.Reject != "" && firstReject == nil {
					firstReject = &r.Node.Transcr[i]
				}
			}
		}
		c.Count("script_requests", nScript)
		if nScript > 0 {
			c.NonTrivial(gen.PanDeviceXML(cs.A, cs.Spell), cs.Files["router"])
		}
		c.Sample(map[string]any{"ops": cs.Ops, "front": o.Front, "script_requests": nScript, "exit": r.Res.Exit, "job_pend": node.JobPend})
		targeted := map[string]bool{}
		for _, b := range cs.B {
			targeted[b.Name] = true
		}
		switch prop {
		case "C08":
			if firstReject != nil {
				kind := panRejectKind(firstReject.Reject)
				if strings.HasPrefix(kind, "dangling") {
					// Is the missing object created by a later request (order
					// problem) or never (lost transfer)?
					name := between2(firstReject.Reject, "'", "'")
					kind += "|never-created"
					for _, rec := range r.Node.Transcr {
						if rec.K > firstReject.K && rec.Class == "script" && strings.Contains(unescape(rec.Req), "entry[@name='"+name+"']") &&
							strings.Contains(unescape(rec.Req), "action=set") {
							kind = strings.Replace(kind, "never-created", "created-later", 1)
						}
					}
				}
				return fail("rejected|"+kind+"|"+panAction(firstReject.Req),
					fmt.Sprintf("request %d %s: %s", firstReject.K, unescape(firstReject.Req), firstReject.Reject))
			}
			return nil
		case "C07":
			if got, want := panosdev.Outside(r.Node.Cand, targeted), panosdev.Outside(before.Cand, targeted); got != want {
				return fail("outside-vsys-changed", "configuration outside the targeted vsys differs after approve")
			}
			for _, rec := range r.Node.Transcr {
				if rec.Class != "script" {
					continue
				}
				u := unescape(rec.Req)
				inTarget := false
				for v := range targeted {
					if strings.Contains(u, "/vsys/entry[@name='"+v+"']") {
						inTarget = true
					}
				}
				if !inTarget {
					return fail("addressed-outside-vsys", "request addresses an object outside the targeted vsys: "+trunc200(u))
				}
			}
			return nil
		}
		// C03
		if firstReject != nil && pre != "" {
			// C10: the resumed approve must get through.
			kind := panRejectKind(firstReject.Reject)
			if strings.HasPrefix(kind, "dangling") {
				name := between2(firstReject.Reject, "'", "'")
				kind += "|never-created"
				for _, rec := range r.Node.Transcr {
					if rec.K > firstReject.K && rec.Class == "script" && strings.Contains(unescape(rec.Req), "entry[@name='"+name+"']") &&
						strings.Contains(unescape(rec.Req), "action=set") {
						kind = strings.Replace(kind, "never-created", "created-later", 1)
					}
				}
			}
			return fail("command-rejected|"+kind+"|"+panAction(firstReject.Req),
				fmt.Sprintf("request %d %s: %s", firstReject.K, unescape(firstReject.Req), firstReject.Reject))
		}
		if firstReject != nil {
			c.Count("skipped_rejected_script", 1)
			if os.Getenv("VERIF_DEBUG") != "" {
				fmt.Println("REJECTED", firstReject.Reject)
				for _, rec := range r.Node.Transcr {
					if rec.Class == "script" {
						u := unescape(rec.Req)
						_, u, _ = strings.Cut(u, "&action=")
						u = strings.ReplaceAll(u, "type=config&xpath=/config/devices/entry[@name='localhost.localdomain']/vsys/entry", "")
						fmt.Println("   ", rec.K, u, "=>", rec.Reject)
					}
				}
				fmt.Println(strings.Join(splitXML(gen.PanDeviceXML(cs.A, 0)), "\n"))
				fmt.Println("TARGET")
				fmt.Println(strings.Join(splitXML(cs.Files["router"]), "\n"))
			}
			return nil
		}
		if r.Res.Exit != 0 {
			e := errorLine(r.RunLog + "\n" + r.Res.Stderr)
			c.Count("not_accepted", 1)
			c.Count("not_accepted:"+firstWords(strings.TrimPrefix(e, "ERROR>>> "), 4), 1)
			return nil
		}
		want := cs.TargetTree()
		for _, b := range cs.B {
			g, w := panosdev.CanonVsys(r.Node.Cand, b.Name), panosdev.CanonVsys(want, b.Name)
			if d := firstDiff(g, w); d != "" {
				key := "state-differs"
				if nScript == 0 {
					key = "unchanged-but-different"
				}
				return fail(key+"|"+panDiffKind(g, w), fmt.Sprintf("vsys %s after approve: %s", b.Name, d))
			}
		}
		if nScript > 0 && r.Node.Cand.String() != r.Node.Running.String() {
			return fail("not-committed", "approve ended OK but candidate and running configuration differ")
		}
		// Second run: compare must report no change.
		r2 := c.LivePan(cs.Files, r.Node, PanOpts{Front: "drc", Compare: true, Timeout: 60})
		if r2.Res.Exit != 0 || r2.Res.Panic != "" {
			return fail("recompare-fails", "second compare fails: "+errorLine(r2.Res.Stderr)+firstLine(r2.Res.Panic))
		}
		if !strings.Contains(r2.Res.Stderr, "comp: device unchanged") {
			cmp := r2.Files["policies/p1/log/router.cmp"]
			return fail("recompare-nonempty|"+panAction(firstLine(cmp)), "second compare still reports changes: "+trunc200(firstLine(cmp)))
		}
		return nil
	}
}

func trunc200(s string) string {
	if len(s) > 200 {
		return s[:200] + "…"
	}
	return s
}

func unescape(s string) string {
	if u, err := urlUnescape(s); err == nil {
		return u
	}
	return s
}

func panAction(req string) string {
	u := unescape(req)
	act := "?"
	if i := strings.Index(u, "action="); i >= 0 {
		act = u[i+7:]
		if j := strings.IndexAny(act, "&"); j >= 0 {
			act = act[:j]
		}
	}
	kind := "other"
	switch {
	case strings.Contains(u, "/rules/entry"):
		kind = "rule"
		if strings.Contains(u, "']/source") || strings.Contains(u, "']/destination") {
			kind = "rule-members"
		}
		if strings.Contains(u, "']/service") {
			kind = "rule-service"
		}
	case strings.Contains(u, "/address-group/"):
		kind = "address-group"
	case strings.Contains(u, "/address/"):
		kind = "address"
	case strings.Contains(u, "/service-group/"):
		kind = "service-group"
	case strings.Contains(u, "/service/"):
		kind = "service"
	}
	return act + "-" + kind
}

func panRejectKind(rej string) string {
	switch {
	case strings.Contains(rej, "is not a valid reference"):
		if strings.HasPrefix(rej, "rule ") {
			return "dangling-reference-in-rule"
		}
		return "dangling-reference-in-group"
	case strings.Contains(rej, "does not exist"):
		return "missing-object"
	case strings.Contains(rej, "does not match"):
		return "edit-mismatch"
	}
	return "other"
}

func panDiffKind(got, want []string) string {
	if len(got) != len(want) {
		return "rule-count"
	}
	for i := range got {
		if got[i] != want[i] {
			g, w := strings.Fields(got[i]), strings.Fields(want[i])
			for j := 1; j < len(g) && j < len(w); j++ {
				if g[j] != w[j] {
					k, _, _ := strings.Cut(w[j], "=")
					if strings.HasPrefix(k, "<") {
						k = strings.Trim(strings.SplitN(k, ">", 2)[0], "<")
					}
					return "rule-" + k
				}
			}
			return "rule"
		}
	}
	return "?"
}

func init() {
	Registry["C03"] = panConverge("C03")
}

func between2(s, a, b string) string {
	_, r, ok := strings.Cut(s, a)
	if !ok {
		return ""
	}
	v, _, _ := strings.Cut(r, b)
	return v
}

var sgSetRE = regexp.MustCompile(`action=set&.*/vsys/entry\[@name='([^']*)'\]/service-group/entry\[@name='([^']*)'\]/members`)

// sgSetOnExisting: some request sets the member list of a service-group the
// device already had.
func sgSetOnExisting(tr []panosdev.Rec, before *panosdev.X) bool {
	for _, rec := range tr {
		if rec.Class != "script" {
			continue
		}
		m := sgSetRE.FindStringSubmatch(unescape(rec.Req))
		if m == nil {
			continue
		}
		for _, v := range panVsysOf(before) {
			if v.Name == m[1] {
				for _, g := range v.Path("service-group").KidsOf("entry") {
					if g.Name == m[2] {
						return true
					}
				}
			}
		}
	}
	return false
}
