package prop

import "testing"

func TestVerif(t *testing.T) { Main(t) }
