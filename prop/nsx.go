package prop

import (
	"fmt"
	"net/http"
	"os"
	"path/filepath"
	"sort"
	"strings"
	"time"

	"github.com/hknutzen/Netspoc-Approve/go/pkg/doapprove"
	"github.com/hknutzen/Netspoc-Approve/go/pkg/drc"
	"github.com/hknutzen/Netspoc-Approve/go/pkg/verifhook"
	"verif/gen"
	"verif/sim/evlog"
	"verif/sim/nsxdev"
	"verif/sim/tape"
	"verif/sim/world"
)

type NsxCase struct {
	B     *gen.NConf
	A     *gen.NConf
	Files map[string]string
	Ops   []string
	Page  int
}

func nsxNodeOf(c *gen.NConf, foreign bool) *nsxdev.Node {
	n := nsxdev.NewNode()
	for _, g := range c.Groups {
		n.Groups = append(n.Groups, g.JSON())
	}
	for _, s := range c.Services {
		n.Services = append(n.Services, s.JSON())
	}
	for _, p := range c.Policies {
		np := &nsxdev.Policy{ID: p.ID, Attrs: nsxdev.Obj{"display_name": p.ID}}
		for _, r := range p.Rules {
			np.Rules = append(np.Rules, r.JSON(true))
		}
		n.Policies = append(n.Policies, np)
	}
	if foreign {
		// Objects that are not Netspoc's: an external group rules may
		// reference, a manual policy, a default service.
		n.Groups = append(n.Groups, nsxdev.Obj{"id": "ext-servers", "expression": []any{
			map[string]any{"id": "e1", "resource_type": "IPAddressExpression", "ip_addresses": []any{"10.50.0.1", "10.50.0.2"}}}})
		n.Services = append(n.Services, nsxdev.Obj{"id": "HTTPS", "service_entries": []any{
			map[string]any{"id": "HTTPS", "resource_type": "L4PortSetServiceEntry", "l4_protocol": "TCP", "destination_ports": []any{"443"}, "source_ports": []any{}}}})
		// ... and objects that merely carry "Netspoc" somewhere in their id.
		n.Groups = append(n.Groups, nsxdev.Obj{"id": "Backup-Netspoc-g0", "expression": []any{
			map[string]any{"id": "e2", "resource_type": "IPAddressExpression", "ip_addresses": []any{"10.51.0.1"}}}})
		n.Services = append(n.Services, nsxdev.Obj{"id": "Copy-of-Netspoc-tcp_80", "service_entries": []any{
			map[string]any{"id": "x", "resource_type": "L4PortSetServiceEntry", "l4_protocol": "TCP", "destination_ports": []any{"80"}, "source_ports": []any{}}}})
		n.Policies = append(n.Policies, &nsxdev.Policy{ID: "manual-policy", Attrs: nsxdev.Obj{"display_name": "manual"},
			Rules: []nsxdev.Obj{{"id": "m1", "action": "ALLOW", "sequence_number": 10, "direction": "IN_OUT",
				"source_groups": []any{"/infra/domains/default/groups/ext-servers"}, "destination_groups": []any{"ANY"},
				"services": []any{"/infra/services/HTTPS"}, "scope": []any{"/infra/tier-0s/v1"}},
				{"id": "m2", "action": "ALLOW", "sequence_number": 20, "direction": "IN_OUT",
					"source_groups": []any{"/infra/domains/default/groups/Backup-Netspoc-g0"}, "destination_groups": []any{"ANY"},
					"services": []any{"/infra/services/Copy-of-Netspoc-tcp_80"}, "scope": []any{"/infra/tier-0s/v1"}}}})
	}
	return n
}

func GenNsxCase(tp *tape.Tape) *NsxCase {
	cs := &NsxCase{}
	cs.B = gen.GenNsxTarget(tp)
	cs.A, cs.Ops = gen.DeriveNsxDevice(tp, cs.B)
	cs.Page = []int{0, 0, 2, 3}[tp.Next(4)]
	cs.Files = map[string]string{"router": cs.B.NetspocJSON()}
	return cs
}

func (cs *NsxCase) Node() *nsxdev.Node {
	n := nsxNodeOf(cs.A, true)
	n.PageSize = cs.Page
	return n
}

func (cs *NsxCase) Input() map[string]any {
	return map[string]any{"device": strings.Split(cs.A.NetspocJSON(), "\n"), "target": strings.Split(cs.Files["router"], "\n"), "ops": cs.Ops, "page_size": cs.Page}
}

type NsxResult struct {
	Res     world.Result
	Node    *nsxdev.Node
	Trouble string
	Log     []string
	Files   map[string]string
	Status  *Status
	History string
	RunLog  string
	EndAt   time.Duration
}

// LiveNsx runs the real tool against the NSX node inside a bubble.
func (c *Ctx) LiveNsx(files map[string]string, node *nsxdev.Node, o PanOpts) *NsxResult {
	pw := o.Password
	if pw == "" {
		pw = "secret"
	}
	node.Password = pw
	info := o.Info
	if info == "" && o.Backup {
		info = `{"model":"NSX","name_list":["router-a","router"],"ip_list":["10.1.13.32","10.1.13.33"]}` + "\n"
	}
	w, err := world.New(c.Root, world.Opts{Model: "NSX", Files: files, Info: info, Timeout: o.Timeout, Password: pw})
	if err != nil {
		c.T.Fatal(err)
	}
	defer os.RemoveAll(w.Dir)
	log := evlog.New()
	node.Log = log
	r := &NsxResult{Node: node}
	var args []string
	mainFn := drc.Main
	if o.Front == "drc" {
		args = []string{"drc", "-L", w.LogDir()}
		if o.Compare {
			args = append(args, "-C")
		}
		args = append(args, w.CodeFile())
	} else {
		mainFn = doapprove.Main
		args = []string{"do-approve"}
		if o.Compare {
			args = append(args, "compare", w.DevName)
		} else {
			args = append(args, "approve", w.DevName)
		}
	}
	dead := nsxdev.NewNode()
	dead.Unreach, dead.Log = true, log
	r.Trouble = world.Bubble(c.T, func() {
		log.Start()
		verifhook.HTTP = func(timeout, loginTimeout time.Duration, ip string) (*http.Client, string) {
			if o.Backup && ip == "10.1.13.32" {
				return dead.Client(timeout), "https://" + ip
			}
			return node.Client(timeout), "https://" + ip
		}
		defer func() { verifhook.HTTP = nil }()
		r.Res = w.Call(args, mainFn)
		r.EndAt = log.Elapsed()
		log.Add("tool", "exit %d", r.Res.Exit)
	})
	r.Log = log.Copy()
	r.Files = world.Snapshot(w.Dir)
	if data, ok := r.Files["status/"+w.DevName]; ok {
		var st Status
		if jsonUnmarshal([]byte(data), &st) == nil {
			r.Status = &st
		}
	}
	r.History = r.Files["history/"+w.DevName]
	suffix := ".drc"
	if o.Compare {
		suffix = ".compare"
	}
	r.RunLog = r.Files[filepath.Join("policies", w.Policy, "log", w.DevName+suffix)]
	for k, v := range r.Files {
		r.Files[k] = strings.ReplaceAll(v, w.Dir, "BASEDIR")
	}
	r.Res.Stdout = strings.ReplaceAll(r.Res.Stdout, w.Dir, "BASEDIR")
	r.Res.Stderr = strings.ReplaceAll(r.Res.Stderr, w.Dir, "BASEDIR")
	c.Res.SimSeconds += r.EndAt.Seconds()
	c.EventHash(log.Hash())
	dumpLog(log.Hash(), log.Copy())
	return r
}

func nsxReqKind(rec nsxdev.Rec) string {
	p := rec.Path
	kind := "other"
	switch {
	case strings.Contains(p, "/ip-address-expressions/"):
		kind = "group-addresses"
	case strings.Contains(p, "/rules/"):
		kind = "rule"
	case strings.Contains(p, "/gateway-policies/"):
		kind = "policy"
	case strings.Contains(p, "/groups/"):
		kind = "group"
	case strings.Contains(p, "/services/"):
		kind = "service"
	}
	return rec.Method + "-" + kind
}

func nsxRejectKind(rej string) string {
	switch {
	case strings.Contains(rej, "references missing group"):
		return "dangling-group-reference"
	case strings.Contains(rej, "references missing service"):
		return "dangling-service-reference"
	case strings.Contains(rej, "does not exist"):
		return "missing-object"
	case strings.Contains(rej, "is not a member"):
		return "remove-missing-address"
	case strings.Contains(rej, "last ip address"):
		return "group-emptied"
	}
	return "other"
}

func nsxConvergeFn(prop string) RunFunc {
	return func(c *Ctx, tp *tape.Tape, _ map[string]any) *Failure {
		cs := GenNsxCase(tp)
		node := cs.Node()
		o := PanOpts{Front: []string{"do-approve", "drc"}[tp.Next(2)], Timeout: 60, Backup: tp.Chance(1, 6)}
		return nsxJudgeConverge(c, cs, node, o, prop, "")
	}
}

// nsxJudgeConverge runs one approve session onto node and applies the oracles
// of C04 (or C07 / C08).  pre prefixes the oracle clause in the key (C10:
// "resume-").
func nsxJudgeConverge(c *Ctx, cs *NsxCase, node *nsxdev.Node, o PanOpts, prop, pre string) *Failure {
	{
		foreignBefore := node.Foreign()
		r := c.LiveNsx(cs.Files, node, o)
		fail := func(key, msg string) *Failure {
			in := cs.Input()
			in["stderr"] = strings.Split(r.Res.Stderr+"\n"+r.RunLog, "\n")
			var reqs []string
			for _, rec := range r.Node.Transcr {
				if rec.Class == "script" {
					s := rec.Method + " " + rec.Path + " " + rec.Body
					if rec.Reject != "" {
						s += "  => REJECTED: " + rec.Reject
					}
					reqs = append(reqs, s)
				}
			}
			in["script"] = reqs
			return &Failure{Key: "NSX|" + pre + key, Msg: msg, Input: in, Log: tail(r.Log, 60)}
		}
		if r.Trouble != "" {
			return fail("no-exit", r.Trouble)
		}
		if r.Res.Panic != "" {
			return fail("tool-panic|"+panicFunc(r.Res.Panic), firstLine(r.Res.Panic))
		}
		nScript := 0
		var firstReject *nsxdev.Rec
		for i, rec := range r.Node.Transcr {
			if rec.Class == "script" {
				nScript++
				if rec.Reject != "" && firstReject == nil {
					firstReject = &r.Node.Transcr[i]
				}
			}
		}
		c.Count("script_requests", nScript)
		if nScript > 0 {
			c.NonTrivial(cs.A.NetspocJSON(), cs.Files["router"])
		}
		c.Sample(map[string]any{"ops": cs.Ops, "front": o.Front, "script_requests": nScript, "exit": r.Res.Exit, "page_size": cs.Page})
		switch prop {
		case "C08":
			if firstReject != nil {
				return fail("rejected|"+nsxRejectKind(firstReject.Reject)+"|"+nsxReqKind(*firstReject),
					fmt.Sprintf("request %d %s %s: %s", firstReject.K, firstReject.Method, firstReject.Path, firstReject.Reject))
			}
			return nil
		case "C07":
			if node.Foreign() != foreignBefore {
				return fail("foreign-object-changed", "an object whose id lacks the Netspoc prefix differs after approve")
			}
			for _, rec := range r.Node.Transcr {
				if rec.Class != "script" {
					continue
				}
				f := strings.Split(strings.SplitN(rec.Path, "?", 2)[0], "/")
				for i, seg := range f {
					if (seg == "groups" || seg == "services" || seg == "gateway-policies") && i+1 < len(f) && !strings.HasPrefix(f[i+1], "Netspoc") {
						return fail("addressed-foreign-object", "request addresses an object without the Netspoc prefix: "+rec.Method+" "+rec.Path)
					}
				}
			}
			return nil
		}
		// C04
		if firstReject != nil && pre != "" {
			// C10: the resumed approve must get through.
			return fail("command-rejected|"+nsxRejectKind(firstReject.Reject)+"|"+nsxReqKind(*firstReject),
				fmt.Sprintf("request %d %s %s: %s", firstReject.K, firstReject.Method, firstReject.Path, firstReject.Reject))
		}
		if firstReject != nil {
			c.Count("skipped_rejected_script", 1)
			if os.Getenv("VERIF_DEBUG") != "" {
				f := fail("debug", firstReject.Reject)
				fmt.Println("REJECTED", firstReject.Reject, cs.Ops)
				for _, l := range f.Input["script"].([]string) {
					fmt.Println("   ", trunc200(l))
				}
			}
			return nil
		}
		if r.Res.Exit != 0 {
			e := errorLine(r.RunLog + "\n" + r.Res.Stderr)
			c.Count("not_accepted", 1)
			c.Count("not_accepted:"+firstWords(strings.TrimPrefix(e, "ERROR>>> "), 4), 1)
			return nil
		}
		want := nsxNodeOf(cs.B, true)
		stateKey := "state-differs"
		if nScript == 0 {
			stateKey = "unchanged-but-different"
		}
		wantPol := map[string]bool{}
		for _, p := range cs.B.Policies {
			wantPol[p.ID] = true
			if d := firstDiff(node.CanonPolicy(p.ID), want.CanonPolicy(p.ID)); d != "" {
				return fail(stateKey+"|rules", fmt.Sprintf("policy %s after approve: %s", p.ID, d))
			}
		}
		for _, p := range node.Policies {
			if strings.HasPrefix(p.ID, "Netspoc") && !wantPol[p.ID] {
				return fail(stateKey+"|left-over-policy", "Netspoc policy "+p.ID+" is still on the manager although the target does not have it")
			}
		}
		groups, services := node.NetspocObjects()
		defined := map[string]bool{}
		for _, s := range cs.B.Services {
			defined[s.ID] = true
		}
		for _, s := range services {
			if !defined[s] {
				return fail(stateKey+"|left-over-service", "Netspoc service "+s+" is left over although the target does not define it")
			}
		}
		used := node.UsedGroups()
		sort.Strings(groups)
		for _, g := range groups {
			if !used[g] {
				return fail(stateKey+"|left-over-group", "Netspoc group "+g+" is left over although no rule uses it")
			}
		}
		r2 := c.LiveNsx(cs.Files, node.Clone(), PanOpts{Front: "drc", Compare: true, Timeout: 60})
		if r2.Res.Exit != 0 || r2.Res.Panic != "" {
			return fail("recompare-fails", "second compare fails: "+errorLine(r2.Res.Stderr)+firstLine(r2.Res.Panic))
		}
		if !strings.Contains(r2.Res.Stderr, "comp: device unchanged") {
			cmp := r2.Files["policies/p1/log/router.cmp"]
			kind := firstWords(firstLine(cmp), 1)
			// Does a second approve change anything but names?  (Policies in
			// canonical form and the multiset of group contents stay the same.)
			n3 := node.Clone()
			r3 := c.LiveNsx(cs.Files, n3, PanOpts{Front: "drc", Timeout: 60})
			if r3.Res.Exit == 0 && r3.Res.Panic == "" && nsxSemantics(n3) == nsxSemantics(node) {
				kind = "names-only"
			}
			f := fail("recompare-nonempty|"+kind, "second compare still reports changes: "+trunc200(firstLine(cmp)))
			if os.Getenv("VERIF_DEBUG") != "" {
				fmt.Println("SCRIPT2\n" + cmp)
			}
			f.Input["script2"] = strings.Split(cmp, "\n")
			return f
		}
		return nil
	}
}

// c10Nsx: an approve session is cut by a dropped connection at every change
// request in turn; a second session on the partially changed manager must
// converge like any other.
func c10Nsx(c *Ctx, tp *tape.Tape, extra map[string]any) *Failure {
	cs := GenNsxCase(tp)
	o := PanOpts{Front: []string{"do-approve", "drc"}[tp.Next(2)], Timeout: 60}
	base := cs.Node()
	rb := c.LiveNsx(cs.Files, base, o)
	var ks []int
	for _, rec := range rb.Node.Transcr {
		if rec.Class == "script" {
			if rec.Reject != "" {
				c.Count("skipped_rejected_script", 1)
				return nil
			}
			ks = append(ks, rec.K)
		}
	}
	if rb.Res.Exit != 0 || rb.Trouble != "" || rb.Res.Panic != "" || len(ks) == 0 {
		c.Count("base_not_usable", 1)
		return nil
	}
	c.NonTrivial(cs.A.NetspocJSON(), cs.Files["router"])
	only := -1
	if extra != nil {
		only = toInt(extra["cut"])
	}
	for _, k := range ks {
		if only >= 0 && k != only {
			continue
		}
		n := cs.Node()
		n.Faults = []nsxdev.Fault{{At: k, Kind: "transport-error"}}
		r1 := c.LiveNsx(cs.Files, n, o)
		c.Res.Evaluations++
		c.Count("cuts", 1)
		if r1.Res.Exit == 0 {
			// C09's subject; nothing to resume.
			c.Count("cut_run_exit_0", 1)
			continue
		}
		if nsxHasEmptyGroup(n) {
			// Cut between 'remove' and 'add' of a group's addresses.  Whether
			// a real manager lets an expression become empty could not be
			// established offline (DESIGN §5 C04): such a state is not judged.
			c.Count("cut_left_empty_group_not_judged", 1)
			continue
		}
		n2 := n.Clone()
		if f := nsxJudgeConverge(c, cs, n2, PanOpts{Front: "drc", Timeout: 60}, "C04", "resume-"); f != nil {
			f.Extra = map[string]any{"cut": k}
			f.Input["cut"] = fmt.Sprintf("connection closed at request %d of the first session", k)
			if !c.NoteKnown(f.Key) {
				return f
			}
		}
		if c.TimeUp() {
			return nil
		}
	}
	return nil
}

func init() {
	nsxConverge = nsxConvergeFn
	Registry["C04"] = nsxConvergeFn("C04")
}

// nsxSemantics renders what the Netspoc part of the manager means: every
// Netspoc policy in canonical form (groups by content) and the multiset of
// the contents of all Netspoc groups and services.
func nsxSemantics(n *nsxdev.Node) string {
	var l []string
	for _, p := range n.Policies {
		if strings.HasPrefix(p.ID, "Netspoc") {
			l = append(l, p.ID+": "+strings.Join(n.CanonPolicy(p.ID), " ; "))
		}
	}
	sort.Strings(l)
	var g []string
	for _, o := range n.Groups {
		if id, _ := o["id"].(string); strings.HasPrefix(id, "Netspoc") {
			var addrs []string
			if ex, ok := o["expression"].([]any); ok {
				for _, e := range ex {
					if em, ok := e.(map[string]any); ok {
						if ia, ok := em["ip_addresses"].([]any); ok {
							for _, a := range ia {
								addrs = append(addrs, fmt.Sprint(a))
							}
						}
					}
				}
			}
			sort.Strings(addrs)
			g = append(g, strings.Join(addrs, ","))
		}
	}
	sort.Strings(g)
	return strings.Join(l, "\n") + "\n--\n" + strings.Join(g, "\n")
}

func nsxHasEmptyGroup(n *nsxdev.Node) bool {
	for _, o := range n.Groups {
		ex, _ := o["expression"].([]any)
		for _, e := range ex {
			if em, ok := e.(map[string]any); ok {
				if ia, ok := em["ip_addresses"].([]any); ok && len(ia) == 0 {
					return true
				}
			}
		}
	}
	return false
}
