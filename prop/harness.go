// Package prop holds one check per property plus the worker harness: seeded
// case loop, shrinking, replay files, known findings, per-worker result file.
package prop

import (
	"crypto/sha256"
	"encoding/hex"
	"encoding/json"
	"fmt"
	"os"
	"path/filepath"
	"sort"
	"strconv"
	"strings"
	"testing"
	"time"

	"verif/sim/tape"
)

// Failure is a violated oracle.  Key identifies the finding (see DESIGN §6).
type Failure struct {
	Key   string         `json:"key"`
	Msg   string         `json:"msg"`
	Extra map[string]any `json:"extra,omitempty"` // explicit enumerated parameters (fault plan …)
	Log   []string       `json:"log,omitempty"`
	Input map[string]any `json:"input,omitempty"` // concrete inputs as text
}

type HarnessError struct{ Msg string }

type Replay struct {
	Property string         `json:"property"`
	Seed     uint64         `json:"seed"`
	Case     int            `json:"case"`
	Tape     []int          `json:"tape"`
	Extra    map[string]any `json:"extra,omitempty"`
	Key      string         `json:"key"`
	Msg      string         `json:"msg"`
	Log      []string       `json:"log,omitempty"`
	Input    map[string]any `json:"input,omitempty"`
	Shrunk   bool           `json:"shrunk"`
	OrigLen  int            `json:"orig_tape_len"`
}

type Result struct {
	Property    string            `json:"property"`
	Worker      int               `json:"worker"`
	Seed        uint64            `json:"seed"`
	Tier        string            `json:"tier"`
	Evaluations int               `json:"evaluations"`
	Hashes      []string          `json:"nontrivial_hashes"`
	Counters    map[string]int    `json:"counters"`
	Samples     []any             `json:"samples"`
	Violations  []Replay          `json:"violations"`
	Known       map[string]int    `json:"known"`
	KnownText   map[string]string `json:"known_text"`
	Harness     []string          `json:"harness_errors"`
	SimSeconds  float64           `json:"sim_seconds"`
	WallS       float64           `json:"wall_s"`
	EventHashes []string          `json:"event_hashes"`
	Exhaustive  bool              `json:"exhaustive"`
}

type Ctx struct {
	T        *testing.T
	Prop     string
	Tier     string
	Seed     uint64
	Worker   int
	NWorkers int
	MaxCases int
	Deadline time.Time
	Root     string // scratch directory, removed at the end
	OutDir   string
	Res      *Result
	hashes   map[string]bool
	evHashes map[string]bool
	known    map[string]knownEntry
	start    time.Time
	Quick    bool
	// Only one replay file per key and worker.
	reported map[string]bool
}

type knownEntry struct {
	Property string `json:"property"`
	Key      string `json:"key"`
	What     string `json:"what_fails"`
	Status   string `json:"status"`
}

func envInt(name string, def int) int {
	if v := os.Getenv(name); v != "" {
		if n, err := strconv.Atoi(v); err == nil {
			return n
		}
	}
	return def
}

func NewCtx(t *testing.T) *Ctx {
	c := &Ctx{T: t, Prop: os.Getenv("VERIF_PROP"), Tier: os.Getenv("VERIF_TIER")}
	if c.Tier == "" {
		c.Tier = "quick"
	}
	c.Quick = c.Tier == "quick"
	seed, _ := strconv.ParseUint(os.Getenv("VERIF_SEED"), 10, 64)
	c.Seed = seed
	c.Worker = envInt("VERIF_WORKER", 0)
	c.NWorkers = envInt("VERIF_NWORKERS", 1)
	c.MaxCases = envInt("VERIF_CASES", 200)
	c.start = time.Now()
	c.Deadline = c.start.Add(time.Duration(envInt("VERIF_SECONDS", 30)) * time.Second)
	c.OutDir = os.Getenv("VERIF_OUT")
	if c.OutDir == "" {
		c.OutDir = "/verif/.build/out"
	}
	os.MkdirAll(c.OutDir, 0755)
	root, err := os.MkdirTemp(scratchBase(), "verif-"+c.Prop+"-")
	if err != nil {
		t.Fatal(err)
	}
	c.Root = root
	c.Res = &Result{Property: c.Prop, Worker: c.Worker, Seed: c.Seed, Tier: c.Tier,
		Counters: map[string]int{}, Known: map[string]int{}, KnownText: map[string]string{}}
	c.hashes = map[string]bool{}
	c.evHashes = map[string]bool{}
	c.reported = map[string]bool{}
	c.known = map[string]knownEntry{}
	if data, err := os.ReadFile("/verif/known_findings.json"); err == nil {
		var l []knownEntry
		if err := json.Unmarshal(data, &l); err != nil {
			t.Fatalf("known_findings.json: %v", err)
		}
		for _, e := range l {
			if e.Status == "open" {
				c.known[e.Property+"|"+e.Key] = e
			}
		}
	}
	return c
}

func (c *Ctx) Count(name string, n int) { c.Res.Counters[name] += n }

// NonTrivial records the canonical hash of a non-trivial case.
func (c *Ctx) NonTrivial(parts ...string) {
	h := sha256.Sum256([]byte(strings.Join(parts, "\x00")))
	c.hashes[hex.EncodeToString(h[:8])] = true
}

func (c *Ctx) EventHash(h string) { c.evHashes[h] = true }

func (c *Ctx) Sample(s any) {
	if len(c.Res.Samples) < 3 {
		c.Res.Samples = append(c.Res.Samples, s)
	}
}

func (c *Ctx) HarnessError(format string, args ...any) {
	msg := fmt.Sprintf(format, args...)
	if len(c.Res.Harness) < 20 {
		c.Res.Harness = append(c.Res.Harness, msg)
	}
}

func (c *Ctx) TimeUp() bool { return time.Now().After(c.Deadline) }

func caseSeed(seed uint64, idx int) uint64 {
	x := seed*0x9e3779b97f4a7c15 + uint64(idx)*0xbf58476d1ce4e5b9 + 0x94d049bb133111eb
	x ^= x >> 31
	x *= 0xd6e8feb86659fd93
	x ^= x >> 29
	return x
}

// RunFunc executes one case drawn from the tape.  extra != nil restricts an
// enumerating check to the one recorded scenario (replay / shrinking).
type RunFunc func(c *Ctx, tp *tape.Tape, extra map[string]any) *Failure

// Loop is the seeded search: case i of this worker is a pure function of
// (seed, i).
func (c *Ctx) Loop(run RunFunc) {
	for i := c.Worker; i < c.MaxCases; i += c.NWorkers {
		if c.TimeUp() {
			c.Count("stopped_by_time", 1)
			break
		}
		tp := tape.New(caseSeed(c.Seed, i), 0)
		c.Res.Evaluations++
		f := run(c, tp, nil)
		if f == nil {
			continue
		}
		c.handle(run, i, tp.Used(), f)
	}
}

func (c *Ctx) handle(run RunFunc, idx int, rec []int, f *Failure) {
	if e, ok := c.known[c.Prop+"|"+f.Key]; ok {
		c.Res.Known[f.Key]++
		c.Res.KnownText[f.Key] = e.What
		return
	}
	if c.reported[f.Key] {
		c.Count("violations_same_key_suppressed", 1)
		return
	}
	c.reported[f.Key] = true
	// Minimise: same key must persist.
	origLen := len(rec)
	best := f
	budget := 400
	if c.Quick {
		budget = 150
	}
	quiet := *c
	quiet.Res = &Result{Counters: map[string]int{}, Known: map[string]int{}, KnownText: map[string]string{}}
	quiet.hashes, quiet.evHashes = map[string]bool{}, map[string]bool{}
	shrunk := tape.Shrink(rec, budget, func(cand []int) bool {
		g := run(&quiet, tape.Replay(cand), f.Extra)
		if g != nil && g.Key == f.Key {
			best = g
			return true
		}
		return false
	})
	// Final run on the minimal tape to get its log and inputs.
	if g := run(&quiet, tape.Replay(shrunk), f.Extra); g != nil && g.Key == f.Key {
		best = g
	} else {
		shrunk = rec
		best = f
	}
	rp := Replay{Property: c.Prop, Seed: c.Seed, Case: idx, Tape: shrunk, Extra: best.Extra,
		Key: best.Key, Msg: best.Msg, Log: best.Log, Input: best.Input,
		Shrunk: len(shrunk) < origLen, OrigLen: origLen}
	c.Res.Violations = append(c.Res.Violations, rp)
}

// Finish writes the per-worker result.
func (c *Ctx) Finish() {
	for h := range c.hashes {
		c.Res.Hashes = append(c.Res.Hashes, h)
	}
	sort.Strings(c.Res.Hashes)
	for h := range c.evHashes {
		c.Res.EventHashes = append(c.Res.EventHashes, h)
	}
	sort.Strings(c.Res.EventHashes)
	c.Res.WallS = time.Since(c.start).Seconds()
	data, _ := json.MarshalIndent(c.Res, "", " ")
	name := filepath.Join(c.OutDir, fmt.Sprintf("%s.w%d.json", c.Prop, c.Worker))
	if err := os.WriteFile(name, data, 0644); err != nil {
		c.T.Fatal(err)
	}
	os.RemoveAll(c.Root)
}

// ReplayFile re-executes one recorded case and reports what it finds.
func ReplayFile(t *testing.T, path string, run RunFunc) {
	data, err := os.ReadFile(path)
	if err != nil {
		t.Fatal(err)
	}
	var rp Replay
	if err := json.Unmarshal(data, &rp); err != nil {
		t.Fatal(err)
	}
	c := NewCtx(t)
	c.Prop = rp.Property
	f := run(c, tape.Replay(rp.Tape), rp.Extra)
	os.RemoveAll(c.Root)
	out := map[string]any{"reproduced": f != nil && f.Key == rp.Key}
	if f != nil {
		out["key"] = f.Key
		out["msg"] = f.Msg
		out["log"] = f.Log
	}
	b, _ := json.MarshalIndent(out, "", " ")
	fmt.Println("REPLAY-RESULT " + strings.ReplaceAll(string(b), "\n", "\nREPLAY-RESULT "))
	if f != nil && f.Key == rp.Key {
		fmt.Printf("REPRODUCED property=%s key=%q\n", rp.Property, rp.Key)
	} else {
		fmt.Printf("NOT-REPRODUCED property=%s expected key=%q\n", rp.Property, rp.Key)
	}
}

// Registry of checks.
var Registry = map[string]RunFunc{}

// Setup hooks run once per worker before the loop (e.g. build scratch copy).
var Setups = map[string]func(c *Ctx){}

// Drivers override the default seeded loop (enumerating checks).
var Drivers = map[string]func(c *Ctx){}

func Main(t *testing.T) {
	if p := os.Getenv("VERIF_REPLAY"); p != "" {
		data, err := os.ReadFile(p)
		if err != nil {
			t.Fatal(err)
		}
		var rp Replay
		json.Unmarshal(data, &rp)
		run := Registry[rp.Property]
		if run == nil {
			t.Fatalf("unknown property %q in replay file", rp.Property)
		}
		ReplayFile(t, p, run)
		return
	}
	id := os.Getenv("VERIF_PROP")
	if id == "" {
		t.Skip("VERIF_PROP not set")
	}
	c := NewCtx(t)
	defer c.Finish()
	if s := Setups[id]; s != nil {
		s(c)
	}
	if d := Drivers[id]; d != nil {
		d(c)
		return
	}
	run := Registry[id]
	if run == nil {
		t.Fatalf("unknown property %q", id)
	}
	c.Loop(run)
}

// scratchBase prefers tmpfs: a run creates and removes thousands of small trees.
func scratchBase() string {
	if fi, err := os.Stat("/dev/shm"); err == nil && fi.IsDir() {
		return "/dev/shm"
	}
	return ""
}

// NoteKnown counts a violation whose key is a listed known finding and
// reports true; enumerating checks then go on exploring the same case.
func (c *Ctx) NoteKnown(key string) bool {
	if e, ok := c.known[c.Prop+"|"+key]; ok {
		c.Res.Known[key]++
		c.Res.KnownText[key] = e.What
		return true
	}
	return false
}
