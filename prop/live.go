package prop

import (
	"fmt"
	"encoding/json"
	"net/url"
	"os"
	"path/filepath"
	"strings"
	"testing/synctest"
	"time"

	"github.com/hknutzen/Netspoc-Approve/go/pkg/doapprove"
	"github.com/hknutzen/Netspoc-Approve/go/pkg/drc"
	"github.com/hknutzen/Netspoc-Approve/go/pkg/verifhook"
	expect "github.com/tailscale/goexpect"
	"verif/sim/cisco"
	"verif/sim/evlog"
	"verif/sim/linuxdev"
	"verif/sim/sshx"
	"verif/sim/tape"
	"verif/sim/world"
)

type LiveOpts struct {
	Front       string // "drc" or "do-approve"
	Compare     bool
	Faults      []cisco.Fault
	CheckBanner string // regexp configured in .netspoc-approve; "" = not configured
	Banner      string // login banner of the device
	Hostname    string // hostname the device reports ("" = right one)
	Timeout     int
	LoginTO     int
	Password    string
	Brief       bool
	NoLogDir    bool // drc without -L
	OnLine      func(k int, line string) // called when the device has received its k-th line
	// Device behaviour knobs (legal variants).
	HostKeyQ, NeedEnPw, NoEnable, PromptSp, PagerSet, WidthSet, LegalWarn, JoinReplies bool
	SaveConfirm                                                                        bool
	SaveBusy                                                                           int
	Chunk, Latency                                                                     bool
	SchedSeed                                                                          int          // seed of the chunking / latency schedule; 0 = none
	Startup                                                                            *cisco.Conf  // nil = same as running
	World                                                                              *world.World // reuse this basedir (not removed afterwards)
}

type Status struct {
	Approve struct {
		Result string `json:"result"`
		Policy string `json:"policy"`
		Time   int64  `json:"time"`
	} `json:"approve"`
	Compare struct {
		Result string `json:"result"`
		Policy string `json:"policy"`
		Time   int64  `json:"time"`
	} `json:"compare"`
}

type LiveResult struct {
	// Common view of the device side of the session.
	Kind     string // ASA, IOS, Linux
	Transcr  []cisco.Rec
	FaultSeq int
	FaultK   int
	Fired    map[string]int
	LDev     *linuxdev.Device
	Res      world.Result
	Dev      *cisco.Device
	Files    map[string]string // snapshot of basedir after the run
	Trouble  string            // bubble-level failure
	Log      []string
	EvHash   string
	EndSeq   int
	FaultAt  time.Duration // simulated time of first disturbing fault
	EndAt    time.Duration
	Status   *Status
	History  string
	RunLog   string // content of the log file do-approve reads
	Sessions int
}

func DefaultLiveOpts(tp *tape.Tape) LiveOpts {
	o := LiveOpts{Front: "do-approve", CheckBanner: "NetSPoC", Banner: "** managed by NetSPoC **", Timeout: 60, LoginTO: 3}
	if tp.Chance(1, 3) {
		o.Front = "drc"
	}
	o.HostKeyQ = tp.Chance(1, 5)
	o.NeedEnPw = tp.Chance(1, 3)
	o.NoEnable = tp.Chance(1, 8)
	o.PromptSp = tp.Chance(1, 2)
	o.PagerSet = tp.Chance(1, 4)
	o.WidthSet = tp.Chance(1, 4)
	o.LegalWarn = tp.Chance(1, 2)
	o.JoinReplies = tp.Chance(1, 2)
	o.SaveConfirm = tp.Chance(1, 3)
	o.SaveBusy = []int{0, 0, 0, 1, 2}[tp.Next(5)]
	o.Chunk = tp.Chance(1, 3)
	o.Latency = tp.Chance(1, 4)
	o.Timeout = []int{60, 10, 30, 120}[tp.Next(4)]
	if o.Chunk || o.Latency {
		o.SchedSeed = tp.Next(1 << 20)
	}
	return o
}

// LiveCisco runs the real tool against the device node inside a bubble.
func (c *Ctx) LiveCisco(cs *CiscoCase, o LiveOpts, sched *tape.Tape) *LiveResult {
	pw := o.Password
	if pw == "" {
		pw = "secret"
	}
	w := o.World
	if w == nil {
		var err error
		w, err = world.New(c.Root, world.Opts{Model: cs.Kind, Files: cs.Files,
			CheckBanner: o.CheckBanner, Timeout: o.Timeout, LoginTO: o.LoginTO, Password: pw})
		if err != nil {
			c.T.Fatal(err)
		}
		defer os.RemoveAll(w.Dir)
	}
	if (o.Chunk || o.Latency) && o.SchedSeed != 0 {
		// The same options give the same schedule: base run and faulted runs
		// of one case agree up to the fault.
		sched = tape.New(uint64(o.SchedSeed), 7)
	}
	log := evlog.New()
	dev := &cisco.Device{
		Node: cisco.NewNode(cs.A.Clone()), Log: log, PrintOpt: cs.PO, Password: pw,
		Banner: o.Banner, Hostname: o.Hostname, HostKeyQ: o.HostKeyQ, NeedEnPw: o.NeedEnPw,
		NoEnable: o.NoEnable, PromptSp: o.PromptSp, PagerSet: o.PagerSet, WidthSet: o.WidthSet,
		Faults: o.Faults, LegalWarn: o.LegalWarn, SaveConfirm: o.SaveConfirm, SaveBusy: o.SaveBusy,
		FaultSeq: -1, JoinReplies: o.JoinReplies,
	}
	dev.OnLine = o.OnLine
	if o.Startup != nil {
		dev.Startup = o.Startup.Clone()
	} else {
		dev.Startup = cs.A.Clone()
	}
	r := &LiveResult{Dev: dev}
	var sessions []*sshx.Session
	var args []string
	mainFn := drc.Main
	if o.Front == "drc" {
		args = []string{"drc", "-L", w.LogDir()}
		if o.NoLogDir {
			args = []string{"drc"}
		}
		if o.Compare {
			args = append(args, "-C")
		}
		args = append(args, w.CodeFile())
	} else {
		mainFn = doapprove.Main
		args = []string{"do-approve"}
		if o.Brief {
			args = append(args, "--brief")
		}
		if o.Compare {
			args = append(args, "compare", w.DevName)
		} else {
			args = append(args, "approve", w.DevName)
		}
	}
	r.Trouble = world.Bubble(c.T, func() {
		log.Start()
		verifhook.Console = func(cmd []string, timeout time.Duration) (*expect.GExpect, error) {
			// Quiescence of the tool: everything blocked, and no timer of
			// zero duration (goexpect's zero-timeout poll) still pending.
			s := sshx.New(log, sched, func() {
				synctest.Wait()
				time.Sleep(time.Millisecond)
				synctest.Wait()
			})
			s.ChunkOn, s.LatencyOn = o.Chunk, o.Latency
			// Legal latency stays below every configured timeout (a reply later
			// than that is the fault kind 'stall').
			s.MaxDelay = min(time.Duration(o.Timeout)*time.Second/3, time.Duration(o.LoginTO)*time.Second/2)
			sessions = append(sessions, s)
			dev.Sess = s
			log.Add("tool", "spawn %s", strings.Join(cmd, " "))
			go dev.Serve()
			return s.Spawn(timeout)
		}
		defer func() { verifhook.Console = nil }()
		r.Res = w.Call(args, mainFn)
		r.EndAt = log.Elapsed()
		r.EndSeq = log.Add("tool", "exit %d", r.Res.Exit)
		for _, s := range sessions {
			s.Teardown()
			c.Count("sched:split_replies", s.Splits)
			c.Count("sched:delayed_replies", s.Delays)
		}
	})
	r.Kind, r.Transcr, r.FaultSeq, r.FaultK, r.Fired = cs.Kind, dev.Transcr, dev.FaultSeq, dev.FaultK, dev.FaultsFired
	r.Sessions = len(sessions)
	r.Log = log.Copy()
	r.EvHash = log.Hash()
	r.Files = world.Snapshot(w.Dir)
	if data, ok := r.Files["status/"+w.DevName]; ok {
		var st Status
		if json.Unmarshal([]byte(data), &st) == nil {
			r.Status = &st
		}
	}
	r.History = r.Files["history/"+w.DevName]
	suffix := ".drc"
	if o.Compare {
		suffix = ".compare"
	}
	r.RunLog = r.Files[filepath.Join("policies", w.Policy, "log", w.DevName+suffix)]
	// Normalise the scratch path out of all texts.
	for k, v := range r.Files {
		r.Files[k] = strings.ReplaceAll(v, w.Dir, "BASEDIR")
	}
	r.Res.Stdout = strings.ReplaceAll(r.Res.Stdout, w.Dir, "BASEDIR")
	r.Res.Stderr = strings.ReplaceAll(r.Res.Stderr, w.Dir, "BASEDIR")
	c.Res.SimSeconds += r.EndAt.Seconds()
	c.EventHash(r.EvHash)
	dumpLog(r.EvHash, r.Log)
	return r
}

// dumpLog writes an event log to $VERIF_DUMPLOGS/<hash>.log (debugging aid of
// the determinism self-test).
func dumpLog(hash string, log []string) {
	if d := os.Getenv("VERIF_DUMPLOGS"); d != "" {
		dumpSeq++
		os.WriteFile(filepath.Join(d, fmt.Sprintf("%06d-%s.log", dumpSeq, hash)), []byte(strings.Join(log, "\n")+"\n"), 0644)
	}
}

var dumpSeq int

// timeOfSeq extracts the simulated time of a log line.
func timeOfSeq(log []string, seq int) time.Duration {
	if seq < 0 || seq >= len(log) {
		return 0
	}
	f := strings.Fields(log[seq])
	if len(f) < 2 {
		return 0
	}
	s := strings.TrimSuffix(strings.TrimPrefix(f[1], "t="), "s")
	d, _ := time.ParseDuration(s + "s")
	return d
}

func tail(l []string, n int) []string {
	if len(l) > n {
		return l[len(l)-n:]
	}
	return l
}

func jsonUnmarshal(data []byte, v any) error { return json.Unmarshal(data, v) }

func urlUnescape(s string) (string, error) { return url.QueryUnescape(s) }
