package prop

import (
	"fmt"
	"slices"
	"strings"

	"verif/sim/cisco"
	"verif/sim/tape"
)

// judgeCompare: a compare run never sends a change, guard or save command and
// leaves running and startup configuration as they were.
func judgeCompare(r *LiveResult, o LiveOpts, before, beforeStartup string) (key, msg string) {
	d := r.Dev
	kind := d.Node.Conf.Kind
	pre := fmt.Sprintf("%s|%s|", kind, o.Front)
	if r.Trouble != "" {
		return pre + "no-exit", r.Trouble
	}
	if r.Res.Panic != "" {
		return pre + "panic|" + panicFunc(r.Res.Panic), firstLine(r.Res.Panic)
	}
	for _, rec := range d.Transcr {
		switch rec.Class {
		case "change", "save", "guard":
			return pre + "sent|" + rec.Class, fmt.Sprintf("compare sent %s command %q", rec.Class, rec.Line)
		case "prep":
			if !(kind == "ASA" && strings.HasPrefix(rec.Line, "terminal width ")) {
				return pre + "sent|prep", fmt.Sprintf("compare sent configuration command %q", rec.Line)
			}
		case "confmode":
			if kind != "ASA" {
				return pre + "sent|confmode", fmt.Sprintf("compare entered configuration mode on IOS: %q", rec.Line)
			}
		}
	}
	if after := cisco.Print(d.Node.Conf, nil); after != before {
		return pre + "running-changed", "running configuration differs after compare"
	}
	if after := cisco.Print(d.Startup, nil); after != beforeStartup {
		return pre + "startup-changed", "startup configuration differs after compare"
	}
	return "", ""
}

func c11Run(c *Ctx, tp *tape.Tape, extra map[string]any) *Failure {
	kind := "ASA"
	if tp.Next(2) == 1 {
		kind = "IOS"
	}
	cs := GenCiscoCase(tp, kind)
	o := DefaultLiveOpts(tp)
	o.Compare = true
	// drc -C without a log directory.
	o.NoLogDir = o.Front == "drc" && tp.Next(3) == 0
	// Interlock outcomes.
	switch tp.Next(6) {
	case 0:
		o.Banner = "welcome" // marker missing
	case 1:
		o.CheckBanner = ""
	case 2:
		o.Hostname = "other"
	}
	before := cisco.Print(cs.A, nil)
	mkFail := func(key, msg string, r *LiveResult, f *cisco.Fault) *Failure {
		in := cs.Input()
		in["opts"] = fmt.Sprintf("%+v", o)
		in["stderr"] = strings.Split(r.Res.Stderr, "\n")
		ex := map[string]any{"fault": map[string]any{"at": 0, "kind": "none", "arg": 0}}
		if f != nil {
			ex["fault"] = map[string]any{"at": f.At, "kind": f.Kind, "arg": f.Arg}
		}
		return &Failure{Key: key, Msg: msg, Input: in, Extra: ex, Log: tail(r.Log, 60)}
	}
	if extra != nil {
		fm, _ := extra["fault"].(map[string]any)
		f := cisco.Fault{At: toInt(fm["at"]), Kind: fmt.Sprint(fm["kind"]), Arg: toInt(fm["arg"])}
		oo := o
		if f.Kind != "none" {
			oo.Faults = []cisco.Fault{f}
		}
		r := c.LiveCisco(cs, oo, tape.Replay(nil))
		if k, m := judgeCompare(r, oo, before, before); k != "" {
			return mkFail(k, m, r, &f)
		}
		return nil
	}
	base := c.LiveCisco(cs, o, tape.Replay(nil))
	if k, m := judgeCompare(base, o, before, before); k != "" {
		return mkFail(k, m, base, nil)
	}
	c.Count("base_runs", 1)
	if strings.Contains(base.Res.Stderr+base.RunLog, "comp: *** device changed") {
		c.NonTrivial(before, cs.Files["router"], o.Front, o.Banner, o.CheckBanner, o.Hostname)
		c.Count("base_with_differences", 1)
	}
	c.Sample(map[string]any{"front": o.Front, "kind": kind, "banner": o.Banner, "checkbanner": o.CheckBanner,
		"hostname": o.Hostname, "exit": base.Res.Exit, "dialogue_lines": base.Dev.K(), "log_tail": tail(base.Log, 8)})
	for pi, rec := range base.Dev.Transcr {
		kinds := faultKindsFor(rec.Class, rec.Line)
		if !slices.Contains(kinds, "error-text") && rec.Line != "<password>" && rec.Class != "confmode" && rec.Class != "guard" {
			// A refused session or show command must not make a compare run
			// change anything either.
			kinds = append(append([]string(nil), kinds...), "error-text")
		}
		for ki, fk := range kinds {
			if c.Quick && (pi+ki)%3 != len(tp.Rec)%3 {
				continue
			}
			f := cisco.Fault{At: rec.K, Kind: fk}
			if fk == "slow" {
				f.Arg = o.Timeout / 2
			}
			oo := o
			oo.Faults = []cisco.Fault{f}
			r := c.LiveCisco(cs, oo, tape.Replay(nil))
			c.Res.Evaluations++
			c.Count("faults_fired:"+fk, r.Dev.FaultsFired[fk])
			if k, m := judgeCompare(r, oo, before, before); k != "" && !c.NoteKnown(k) {
				return mkFail(k, m, r, &f)
			}
			if c.TimeUp() {
				return nil
			}
		}
	}
	return nil
}

func init() { Registry["C11"] = c11Run }
