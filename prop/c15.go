package prop

import (
	"fmt"
	"sort"
	"strings"

	"verif/gen"
	"verif/sim/cisco"
	"verif/sim/tape"
)

// guardOrder checks the ordering clauses of C15 on one transcript.
func guardOrder(r *LiveResult) (key, msg string) {
	d := r.Dev
	armed := false
	cancelled := false
	allAccepted := true
	for i, line := range r.Log {
		switch {
		case strings.Contains(line, " dev reload armed"):
			armed = true
		case strings.Contains(line, " dev reload cancelled"):
			armed = false
			cancelled = true
		case strings.Contains(line, " dev RELOAD FIRED"):
			armed = false
		case strings.Contains(line, " dev recv[change]"):
			if !armed {
				return "change-outside-guard", "change command sent while no reload is scheduled: " + line
			}
			cancelled = false
		case strings.Contains(line, " dev REJECT"):
			allAccepted = false
		case strings.Contains(line, " dev recv[save]"):
			if armed {
				return "save-before-cancel", "write memory sent while the reload is still scheduled: " + line
			}
			if !allAccepted {
				return "save-after-reject", "write memory sent although a change was rejected"
			}
			_ = cancelled
		}
		_ = i
	}
	if r.Res.Exit == 0 {
		if !d.ReloadAt.IsZero() {
			return "reload-left-pending", "run ended OK but a reload is still scheduled"
		}
		if d.ReloadFired {
			return "reload-fired", "run ended OK although the reload fired"
		}
	}
	return "", ""
}

func changeMultiset(r *LiveResult) string {
	var l []string
	for _, rec := range r.Dev.Transcr {
		if rec.Class == "change" {
			l = append(l, rec.Line)
		}
	}
	sort.Strings(l)
	return strings.Join(l, "\n")
}

func c15Run(c *Ctx, tp *tape.Tape, extra map[string]any) *Failure {
	cs := GenCiscoCaseK(tp, "IOS", func(k *gen.Knobs) { k.Independent = false })
	o := DefaultLiveOpts(tp)
	o.Compare = false
	o.Chunk, o.Latency = false, false
	// The device idles up to one minute before the 1:00 banner; that must stay
	// below the tool's timeout, otherwise the scenario is a stall, not a banner.
	o.Timeout = 120
	mkFail := func(key, msg string, r *LiveResult, f *cisco.Fault) *Failure {
		in := cs.Input()
		in["opts"] = fmt.Sprintf("%+v", o)
		in["stderr"] = strings.Split(r.Res.Stderr+r.RunLog, "\n")
		ex := map[string]any{"fault": map[string]any{"at": 0, "kind": "none", "arg": 0, "arg2": 0}}
		if f != nil {
			ex["fault"] = map[string]any{"at": f.At, "kind": f.Kind, "arg": f.Arg, "arg2": f.Arg2}
		}
		return &Failure{Key: "IOS|" + key, Msg: msg, Input: in, Extra: ex, Log: tail(r.Log, 70)}
	}
	base := c.LiveCisco(cs, o, tape.Replay(nil))
	if base.Trouble != "" || base.Res.Panic != "" {
		return mkFail("base-trouble", base.Trouble+firstLine(base.Res.Panic), base, nil)
	}
	if k, m := guardOrder(base); k != "" && !c.NoteKnown("IOS|"+k+"|none") {
		return mkFail(k+"|none", m, base, nil)
	}
	c.Count("base_runs", 1)
	if base.Res.Exit != 0 {
		c.Count("base_not_accepted", 1)
		return nil
	}
	baseSet := changeMultiset(base)
	if baseSet == "" {
		c.Count("base_empty_script", 1)
		return nil
	}
	baseRun := cisco.Print(base.Dev.Node.Conf, nil)
	baseStart := cisco.Print(base.Dev.Startup, nil)
	c.NonTrivial(ciscoPrint(cs), cs.Files["router"])
	c.Sample(map[string]any{"script": strings.Split(baseSet, "\n"), "armed": base.Dev.ReloadArmed,
		"cancels": base.Dev.ReloadCancels, "log_tail": tail(base.Log, 10)})
	judge := func(r *LiveResult, f cisco.Fault) (string, string) {
		form := fmt.Sprintf("banner-%s-%s", map[bool]string{true: "1:00", false: "2:00"}[f.Arg2&2 != 0],
			map[bool]string{true: "prompt", false: "plain"}[f.Arg2&1 != 0])
		pos := "mid"
		if f.Arg == 0 {
			pos = "before-echo"
		} else if f.Arg >= 1000 {
			pos = "after-echo"
		}
		for _, rec := range r.Dev.Transcr {
			if rec.K == f.At && f.Arg >= len(rec.Line) {
				pos = "after-echo" // an offset at the end of the echo is behind it, too
			}
		}
		sfx := "|" + form + "|" + pos
		for _, rec := range r.Dev.Transcr {
			if rec.K == f.At && rec.More {
				sfx += "|joined-first"
			}
		}
		if r.Trouble != "" {
			return "no-exit" + sfx, r.Trouble
		}
		if r.Res.Panic != "" {
			return "panic" + sfx, firstLine(r.Res.Panic)
		}
		if k, m := guardOrder(r); k != "" {
			return k + sfx, m
		}
		if r.Res.Exit != base.Res.Exit {
			return "outcome-exit" + sfx, fmt.Sprintf("exit %d with banner, %d without: %s", r.Res.Exit, base.Res.Exit, firstLine(r.Res.Stderr+r.RunLog))
		}
		if got := cisco.Print(r.Dev.Node.Conf, nil); got != baseRun {
			return "outcome-running" + sfx, "running configuration differs from the banner-free run"
		}
		if got := cisco.Print(r.Dev.Startup, nil); got != baseStart {
			return "outcome-startup" + sfx, "startup configuration differs from the banner-free run"
		}
		if got := changeMultiset(r); got != baseSet {
			return "outcome-script" + sfx, "set of change commands differs from the banner-free run"
		}
		if f.Arg2&2 != 0 && r.Dev.FaultsFired["banner"] > 0 && r.Dev.ReloadArmed < 2 {
			return "no-rearm" + sfx, "one-minute warning shown but the reload was not re-armed"
		}
		return "", ""
	}
	if extra != nil {
		fm, _ := extra["fault"].(map[string]any)
		f := cisco.Fault{At: toInt(fm["at"]), Kind: fmt.Sprint(fm["kind"]), Arg: toInt(fm["arg"]), Arg2: toInt(fm["arg2"])}
		if f.Kind == "none" {
			return nil
		}
		oo := o
		oo.Faults = []cisco.Fault{f}
		r := c.LiveCisco(cs, oo, tape.Replay(nil))
		if k, m := judge(r, f); k != "" {
			return mkFail(k, m, r, &f)
		}
		return nil
	}
	// Positions inside the guarded region: change commands (the echo the
	// tool strips banners from).
	for pi, rec := range base.Dev.Transcr {
		if rec.Class != "change" {
			continue
		}
		var offs []int
		if c.Quick {
			offs = []int{0, len(rec.Line) / 2, 1000}
		} else {
			for i := 0; i <= len(rec.Line); i++ {
				offs = append(offs, i)
			}
			offs = append(offs, 1000)
		}
		for _, off := range offs {
			for a2 := 0; a2 < 4; a2++ {
				if a2&1 != 0 && off != 0 && off != 1000 {
					continue
				}
				if c.Quick && (pi+off+a2)%2 != len(tp.Rec)%2 {
					continue
				}
				f := cisco.Fault{At: rec.K, Kind: "banner", Arg: off, Arg2: a2}
				oo := o
				oo.Faults = []cisco.Fault{f}
				r := c.LiveCisco(cs, oo, tape.Replay(nil))
				c.Res.Evaluations++
				c.Count(fmt.Sprintf("banner_fired:arg2=%d", a2), r.Dev.FaultsFired["banner"])
				if k, m := judge(r, f); k != "" && !c.NoteKnown("IOS|"+k) {
					return mkFail(k, m, r, &f)
				}
				if c.TimeUp() {
					return nil
				}
			}
		}
	}
	return nil
}

func init() { Registry["C15"] = c15Run }
