package prop

import (
	"bufio"
	"fmt"
	"os"
	"os/exec"
	"path/filepath"
	"regexp"
	"sort"
	"strconv"
	"strings"
	"syscall"
	"time"

	"verif/sim/tape"
)

// ---- world of the shell mode ------------------------------------------------

type shWorld struct {
	// A revision is pushed to the origin when the first invocation is about
	// to execute its commitAtStep-th command (0 = never).
	commitAtStep int
	commitDone   bool
	commitLog    string
	dir    string // HOME and basedir
	bin    string // PATH prefix with stubs
	events string
	nInv   int
	tokens int
}

func run(dir string, env []string, name string, args ...string) (string, error) {
	cmd := exec.Command(name, args...)
	cmd.Dir = dir
	cmd.Env = env
	out, err := cmd.CombinedOutput()
	return string(out), err
}

func (w *shWorld) env() []string {
	return []string{
		"HOME=" + w.dir, "PATH=" + w.bin + ":/usr/local/bin:/usr/bin:/bin",
		"VERIF_EVENTS=" + w.events, "LANG=C",
		"GIT_AUTHOR_NAME=netspoc", "GIT_AUTHOR_EMAIL=", "GIT_COMMITTER_NAME=netspoc", "GIT_COMMITTER_EMAIL=",
		"GIT_CONFIG_NOSYSTEM=1", "GIT_TERMINAL_PROMPT=0",
	}
}

func (c *Ctx) newShWorld() (*shWorld, error) {
	counter++
	dir := filepath.Join(c.Root, fmt.Sprintf("s%d", counter))
	os.RemoveAll(dir)
	w := &shWorld{dir: dir, bin: filepath.Join(dir, "bin"), events: filepath.Join(dir, "events")}
	for _, d := range []string{w.bin, filepath.Join(dir, "policies"), filepath.Join(dir, "fifo")} {
		if err := os.MkdirAll(d, 0755); err != nil {
			return nil, err
		}
	}
	os.WriteFile(w.events, nil, 0644)
	vb := os.Getenv("VERIF_BIN")
	if vb == "" {
		vb = "/verif/.build/bin"
	}
	cp := func(src, dst string) error {
		data, err := os.ReadFile(src)
		if err != nil {
			return err
		}
		return os.WriteFile(dst, data, 0755)
	}
	for _, f := range [][2]string{
		{"/verif/sim/sh/netspoc", "netspoc"}, {"/verif/sim/sh/mail", "mail"},
		{filepath.Join(vb, "get-netspoc-approve-conf"), "get-netspoc-approve-conf"},
		{repoDir() + "/bin/newpolicy.sh", "newpolicy.sh"},
	} {
		if err := cp(f[0], filepath.Join(w.bin, f[1])); err != nil {
			return nil, err
		}
	}
	origin := filepath.Join(dir, "origin.git")
	conf := fmt.Sprintf("basedir = %s\nnetspoc_git = file://%s\nadmin_emails = admin@example.com\n", dir, origin)
	os.WriteFile(filepath.Join(dir, ".netspoc-approve"), []byte(conf), 0644)
	env := w.env()
	if out, err := run(dir, env, "git", "init", "-q", "--bare", "-b", "master", origin); err != nil {
		return nil, fmt.Errorf("git init: %v %s", err, out)
	}
	if out, err := run(dir, env, "git", "clone", "-q", origin, "work"); err != nil {
		return nil, fmt.Errorf("git clone: %v %s", err, out)
	}
	run(filepath.Join(dir, "work"), env, "git", "checkout", "-q", "-b", "master")
	return w, nil
}

var counter int

// commit adds a revision to the origin; bad revisions do not compile.
func (w *shWorld) commit(good bool, email string) (string, error) {
	work := filepath.Join(w.dir, "work")
	env := w.env()
	run(work, env, "git", "pull", "-q", "--no-rebase", "origin", "master")
	w.tokens++
	token := fmt.Sprintf("rev%d", w.tokens)
	os.WriteFile(filepath.Join(work, "DATA"), []byte(token+"\n"), 0644)
	if good {
		os.Remove(filepath.Join(work, "BAD"))
	} else {
		os.WriteFile(filepath.Join(work, "BAD"), []byte("x\n"), 0644)
	}
	run(work, env, "git", "add", "-A")
	env2 := append([]string{}, env...)
	env2 = append(env2, "GIT_AUTHOR_EMAIL="+email, "GIT_AUTHOR_NAME=dev")
	if out, err := run(work, env2, "git", "commit", "-q", "-m", token); err != nil {
		return "", fmt.Errorf("commit: %v %s", err, out)
	}
	if out, err := run(work, env, "git", "push", "-q", "origin", "master"); err != nil {
		return "", fmt.Errorf("push: %v %s", err, out)
	}
	return token, nil
}

// seedPolicyNumber commits a POLICY file like the one newpolicy.sh maintains.
func (w *shWorld) seedPolicyNumber(n int) error {
	work := filepath.Join(w.dir, "work")
	env := w.env()
	os.WriteFile(filepath.Join(work, "POLICY"), []byte(fmt.Sprintf("# p%d # Current policy, don't edit manually!\n", n)), 0644)
	run(work, env, "git", "add", "-A")
	if out, err := run(work, env, "git", "commit", "-q", "-m", fmt.Sprintf("p%d", n)); err != nil {
		return fmt.Errorf("seed commit: %v %s", err, out)
	}
	if out, err := run(work, env, "git", "push", "-q", "origin", "master"); err != nil {
		return fmt.Errorf("seed push: %v %s", err, out)
	}
	return nil
}

// originHead returns DATA token and BAD flag of the newest revision.
func (w *shWorld) originHead() (token string, bad bool) {
	origin := filepath.Join(w.dir, "origin.git")
	out, err := run(w.dir, w.env(), "git", "--git-dir", origin, "show", "master:DATA")
	token = strings.TrimSpace(out)
	if err != nil {
		token = "none" // the revision has no DATA file (what the stub compiler records, too)
	}
	_, err = run(w.dir, w.env(), "git", "--git-dir", origin, "cat-file", "-e", "master:BAD")
	return token, err == nil
}

func (w *shWorld) copyTo(dst string) error {
	os.RemoveAll(dst)
	out, err := exec.Command("cp", "-a", w.dir, dst).CombinedOutput()
	if err != nil {
		return fmt.Errorf("cp: %v %s", err, out)
	}
	return nil
}

// relocate returns a world living in a copy of the directory tree.  Paths in
// the config file and in git remotes are rewritten.
func (w *shWorld) cloneWorld(c *Ctx) (*shWorld, error) {
	counter++
	dst := filepath.Join(c.Root, fmt.Sprintf("s%d", counter))
	if err := w.copyTo(dst); err != nil {
		return nil, err
	}
	n := &shWorld{dir: dst, bin: filepath.Join(dst, "bin"), events: filepath.Join(dst, "events"), tokens: w.tokens}
	fix := func(p string) {
		data, err := os.ReadFile(p)
		if err == nil {
			os.WriteFile(p, []byte(strings.ReplaceAll(string(data), w.dir, dst)), 0644)
		}
	}
	fix(filepath.Join(dst, ".netspoc-approve"))
	filepath.Walk(dst, func(p string, fi os.FileInfo, err error) error {
		if err == nil && !fi.IsDir() && fi.Name() == "config" && strings.Contains(p, ".git") {
			fix(p)
		}
		return nil
	})
	return n, nil
}

// ---- invariants on the policy database ---------------------------------------

var pnumRE = regexp.MustCompile(`^p(\d+)$`)

type dbState struct {
	current string // link target, "" if absent
	num     int
}

func (w *shWorld) checkDB(history *[]int) (key, msg string) {
	pol := filepath.Join(w.dir, "policies")
	target, err := os.Readlink(filepath.Join(pol, "current"))
	if err != nil {
		return "", "" // absent is allowed
	}
	dir := filepath.Join(pol, target)
	fi, err := os.Stat(dir)
	if err != nil || !fi.IsDir() {
		return "current-invalid", fmt.Sprintf("'current' -> %q which is not a directory", target)
	}
	if _, err := os.Stat(filepath.Join(dir, "code", ".compiled-ok")); err != nil {
		return "current-invalid", fmt.Sprintf("'current' -> %q which was not produced by a successful compile", target)
	}
	if comp, err1 := os.ReadFile(filepath.Join(dir, "code", ".compiled-ok")); err1 == nil {
		src, err2 := os.ReadFile(filepath.Join(dir, "src", "DATA"))
		if err2 != nil {
			src = []byte("none\n")
		}
		if string(src) != string(comp) {
			return "current-source-not-compiled", fmt.Sprintf("'current' -> %q: its source tree holds revision %q, compiled was %q",
				target, strings.TrimSpace(string(src)), strings.TrimSpace(string(comp)))
		}
	}
	if _, err := os.Stat(filepath.Join(dir, "src", "BAD")); err == nil {
		return "bad-commit-moved-current", fmt.Sprintf("'current' -> %q whose source does not compile", target)
	}
	m := pnumRE.FindStringSubmatch(target)
	if m == nil {
		return "current-invalid", fmt.Sprintf("'current' -> %q: not a policy name", target)
	}
	n, _ := strconv.Atoi(m[1])
	if l := len(*history); l == 0 || (*history)[l-1] != n {
		if l > 0 && n <= (*history)[l-1] {
			return "number-not-increasing", fmt.Sprintf("'current' went from p%d to p%d", (*history)[l-1], n)
		}
		*history = append(*history, n)
	}
	return "", ""
}

// ---- traced invocations ------------------------------------------------------

type stepReq struct {
	inv *shInv
	pid string
	cmd string
}

type shInv struct {
	id        int
	cmd       *exec.Cmd
	req       *os.File
	reply     *os.File
	pending   []stepReq
	steps     int
	occ       map[string]int
	trace     []string
	inSection bool
	done      bool
	exit      int
	killed    bool
	doneCh    chan struct{}
}

func normCmd(s string) string {
	s = regexp.MustCompile(`/[^ ]*/s\d+/`).ReplaceAllString(s, "DIR/")
	s = regexp.MustCompile(`[0-9a-f]{40}`).ReplaceAllString(s, "HASH")
	return s
}

func (w *shWorld) start(reqCh chan stepReq) (*shInv, error) {
	w.nInv++
	inv := &shInv{id: w.nInv, occ: map[string]int{}, doneCh: make(chan struct{})}
	reqP := filepath.Join(w.dir, "fifo", fmt.Sprintf("req%d", inv.id))
	repP := filepath.Join(w.dir, "fifo", fmt.Sprintf("rep%d", inv.id))
	os.Remove(reqP)
	os.Remove(repP)
	if err := syscall.Mkfifo(reqP, 0600); err != nil {
		return nil, err
	}
	if err := syscall.Mkfifo(repP, 0600); err != nil {
		return nil, err
	}
	var err error
	if inv.req, err = os.OpenFile(reqP, os.O_RDWR, 0); err != nil {
		return nil, err
	}
	if inv.reply, err = os.OpenFile(repP, os.O_RDWR, 0); err != nil {
		return nil, err
	}
	cmd := exec.Command("/bin/bash", filepath.Join(w.bin, "newpolicy.sh"))
	cmd.Dir = w.dir
	cmd.Env = append(w.env(), "BASH_ENV=/verif/sim/sh/trace.sh", "VERIF_REQ="+reqP, "VERIF_REPLY="+repP)
	cmd.SysProcAttr = &syscall.SysProcAttr{Setpgid: true}
	out, _ := os.Create(filepath.Join(w.dir, fmt.Sprintf("inv%d.out", inv.id)))
	cmd.Stdout, cmd.Stderr = out, out
	if err := cmd.Start(); err != nil {
		return nil, err
	}
	inv.cmd = cmd
	go func() {
		sc := bufio.NewScanner(inv.req)
		sc.Buffer(make([]byte, 1<<20), 1<<20)
		for sc.Scan() {
			pid, c, _ := strings.Cut(sc.Text(), "|")
			reqCh <- stepReq{inv, pid, c}
		}
	}()
	go func() {
		err := cmd.Wait()
		out.Close()
		inv.exit = 0
		if ee, ok := err.(*exec.ExitError); ok {
			inv.exit = ee.ExitCode()
		}
		close(inv.doneCh)
	}()
	return inv, nil
}

func (inv *shInv) kill() {
	inv.killed = true
	syscall.Kill(-inv.cmd.Process.Pid, syscall.SIGKILL)
	<-inv.doneCh
	inv.done = true
	inv.req.Close()
	inv.reply.Close()
}

func (inv *shInv) release() {
	inv.pending = inv.pending[1:]
	inv.reply.WriteString("go\n")
}

type killPoint struct {
	cmd string
	occ int
}

// shRun drives a set of invocations to completion.  choose picks the
// invocation to release next among those with a pending request; killAt, if
// set, kills invocation 1 before the given command occurrence.
func (c *Ctx) shRun(w *shWorld, n int, sched *tape.Tape, killAt *killPoint, history *[]int) (invs []*shInv, key, msg string, err error) {
	reqCh := make(chan stepReq, 64)
	for i := 0; i < n; i++ {
		inv, e := w.start(reqCh)
		if e != nil {
			return invs, "", "", e
		}
		invs = append(invs, inv)
	}
	// A contender stays parked at its first command until the first
	// invocation has made holdUntil[i] steps (tape-chosen), so that it can
	// arrive at any phase of the holder's run.
	holdUntil := make([]int, n)
	var cur *shInv
	if sched != nil {
		for i := 1; i < n; i++ {
			holdUntil[i] = sched.Next(160)
		}
	}
	deadline := time.Now().Add(120 * time.Second)
	live := func() int {
		k := 0
		for _, inv := range invs {
			if !inv.done {
				k++
			}
		}
		return k
	}
	for live() > 0 {
		// Wait until every live invocation is parked at a step or has ended.
		for {
			waiting := false
			for _, inv := range invs {
				if !inv.done && len(inv.pending) == 0 {
					waiting = true
				}
			}
			if !waiting {
				break
			}
			var doneChs []*shInv
			for _, inv := range invs {
				if !inv.done {
					doneChs = append(doneChs, inv)
				}
			}
			select {
			case r := <-reqCh:
				r.inv.pending = append(r.inv.pending, r)
			case <-time.After(20 * time.Millisecond):
				for _, inv := range doneChs {
					select {
					case <-inv.doneCh:
						// drain late requests
						inv.done = true
						inv.inSection = false
					default:
					}
				}
				if time.Now().After(deadline) {
					for _, inv := range invs {
						if !inv.done {
							inv.kill()
						}
					}
					return invs, "", "", fmt.Errorf("shell run did not finish within 120 s; last commands: %v", lastCmds(invs))
				}
			}
		}
		// Invariants hold between any two simple commands.
		if k, m := w.checkDB(history); k != "" {
			for _, inv := range invs {
				if !inv.done {
					inv.kill()
				}
			}
			return invs, k, m + "; last commands: " + strings.Join(lastCmds(invs), " || "), nil
		}
		inSec := 0
		for _, inv := range invs {
			if inv.inSection && !inv.done {
				inSec++
			}
		}
		if inSec > 1 {
			for _, inv := range invs {
				if !inv.done {
					inv.kill()
				}
			}
			return invs, "overlap", "two newpolicy.sh invocations work on the policy database at the same time: " + strings.Join(lastCmds(invs), " || "), nil
		}
		// Pick the next invocation to proceed.
		var ready []*shInv
		for _, inv := range invs {
			if !inv.done && len(inv.pending) > 0 {
				ready = append(ready, inv)
			}
		}
		if len(ready) == 0 {
			continue
		}
		// Contenders that are still held back are not ready.
		if sched != nil && n > 1 {
			var r2 []*shInv
			for _, inv := range ready {
				idx := 0
				for i, x := range invs {
					if x == inv {
						idx = i
					}
				}
				if idx > 0 && inv.steps == 0 && !invs[0].done && invs[0].steps < holdUntil[idx] {
					continue
				}
				r2 = append(r2, inv)
			}
			if len(r2) > 0 {
				ready = r2
			}
		}
		inv := ready[0]
		if len(ready) > 1 && sched != nil {
			// Mostly let one run for a while, sometimes switch.
			stay := false
			for _, x := range ready {
				if x == cur && sched.Next(8) != 0 {
					inv, stay = x, true
				}
			}
			if !stay {
				inv = ready[sched.Next(len(ready))]
			}
		}
		cur = inv
		if w.commitAtStep > 0 && !w.commitDone && inv == invs[0] && inv.steps+1 == w.commitAtStep {
			w.commitDone = true
			if tok, err := w.commit(true, ""); err == nil {
				w.commitLog = fmt.Sprintf("commit %s good=true pushed while the run was at step %d", tok, w.commitAtStep)
			}
		}
		r := inv.pending[0]
		nc := normCmd(r.cmd)
		inv.occ[nc]++
		inv.steps++
		inv.trace = append(inv.trace, nc)
		// Critical section: entered once flock succeeded ("uptodate" is the
		// first command after it), left at exit.
		if nc == "uptodate" {
			inv.inSection = true
		}
		if killAt != nil && inv.id == invs[0].id && nc == killAt.cmd && inv.occ[nc] == killAt.occ {
			inv.kill()
			inv.inSection = false
			continue
		}
		inv.release()
	}
	if k, m := w.checkDB(history); k != "" {
		return invs, k, m, nil
	}
	return invs, "", "", nil
}

func lastCmds(invs []*shInv) []string {
	var l []string
	for _, inv := range invs {
		t := inv.trace
		if len(t) > 3 {
			t = t[len(t)-3:]
		}
		l = append(l, fmt.Sprintf("inv%d: %s", inv.id, strings.Join(t, " ; ")))
	}
	return l
}

// ---- the property --------------------------------------------------------------

func c19Run(c *Ctx, tp *tape.Tape, extra map[string]any) *Failure {
	w, err := c.newShWorld()
	if err != nil {
		c.HarnessError("shell world: %v", err)
		return nil
	}
	defer func() {
		// remove all worlds of this case
		os.RemoveAll(w.dir)
	}()
	var history []int
	var evlog []string
	fail := func(key, msg string, ex map[string]any) *Failure {
		return &Failure{Key: key, Msg: msg, Extra: ex, Log: evlog, Input: map[string]any{"events": evlog}}
	}
	// The repository may come with a POLICY file from earlier times, so
	// that numbers cross a decimal boundary soon (p9 -> p10, p99 -> p100).
	if n := []int{0, 0, 8, 9, 98}[tp.Next(5)]; n > 0 {
		if err := w.seedPolicyNumber(n); err != nil {
			c.HarnessError("%v", err)
			return nil
		}
		evlog = append(evlog, fmt.Sprintf("repository starts with POLICY file '# p%d'", n))
	}
	// History of commits and undisturbed runs first.
	nEv := 1 + tp.Next(4)
	for i := 0; i < nEv; i++ {
		good := tp.Next(3) != 0
		email := ""
		if tp.Next(2) == 0 {
			email = "dev@example.com"
		}
		tok, err := w.commit(good, email)
		if err != nil {
			c.HarnessError("%v", err)
			return nil
		}
		evlog = append(evlog, fmt.Sprintf("commit %s good=%v email=%q", tok, good, email))
		if tp.Next(3) != 0 {
			invs, k, m, err := c.shRun(w, 1, nil, nil, &history)
			if err != nil {
				c.HarnessError("%v", err)
				return nil
			}
			evlog = append(evlog, fmt.Sprintf("run: %d steps, exit %d, current history %v", invs[0].steps, invs[0].exit, history))
			if os.Getenv("VERIF_DEBUG") != "" {
				fmt.Println("TRACE", strings.Join(invs[0].trace, "\n  "))
			}
			if k != "" {
				return fail(k, m, nil)
			}
		}
	}
	// One more commit, then the disturbed run.
	good := tp.Next(4) != 0
	email := ""
	if tp.Next(2) == 0 {
		email = "dev@example.com"
	}
	tok, err := w.commit(good, email)
	if err != nil {
		c.HarnessError("%v", err)
		return nil
	}
	evlog = append(evlog, fmt.Sprintf("commit %s good=%v email=%q", tok, good, email))
	mode := tp.Next(4)
	if extra != nil {
		mode = toInt(extra["mode"])
	}
	c.Count(fmt.Sprintf("mode_%d", mode), 1)
	if mode == 3 {
		// A further revision is pushed to the origin while the run is under
		// way (at a tape-chosen command).
		step := 2 + tp.Next(70)
		if extra != nil {
			step = toInt(extra["step"])
		}
		ex := map[string]any{"mode": 3, "step": step}
		w.commitAtStep = step
		invs, k, m, err := c.shRun(w, 1, nil, nil, &history)
		c.Res.Evaluations++
		if err != nil {
			c.HarnessError("%v", err)
			return nil
		}
		evlog = append(evlog, fmt.Sprintf("run: %d steps, exit %d, current history %v", invs[0].steps, invs[0].exit, history))
		if w.commitLog != "" {
			evlog = append(evlog, w.commitLog)
			c.Count("commits_during_run", 1)
		}
		w.commitAtStep = 0
		c.NonTrivial(strings.Join(evlog, "\n"))
		if k != "" {
			return fail(k, m, ex)
		}
		return c.shLiveness(w, &history, &evlog, fail, ex)
	}
	if mode == 0 {
		// Two or three simultaneous invocations, interleaved step by step.
		n := 2 + tp.Next(2)
		sched := tape.New(uint64(tp.Next(1<<30)), 7)
		if extra != nil {
			n = toInt(extra["n"])
			sched = tape.New(uint64(toInt(extra["sched"])), 7)
		}
		ex := map[string]any{"mode": 0, "n": n}
		invs, k, m, err := c.shRun(w, n, sched, nil, &history)
		c.Res.Evaluations++
		if err != nil {
			c.HarnessError("%v", err)
			return nil
		}
		winners := 0
		for _, inv := range invs {
			if inv.steps > 3 && inv.exit == 0 {
				winners++
			}
		}
		evlog = append(evlog, fmt.Sprintf("%d simultaneous invocations: %s", n, strings.Join(lastCmds(invs), " || ")))
		c.NonTrivial(strings.Join(evlog, "\n"))
		c.Sample(map[string]any{"events": evlog})
		if k != "" {
			return fail(k, m, ex)
		}
		return c.shLiveness(w, &history, &evlog, fail, ex)
	}
	// Kill at every simple command of one run.
	base, err := w.cloneWorld(c)
	if err != nil {
		c.HarnessError("%v", err)
		return nil
	}
	defer os.RemoveAll(base.dir)
	h0 := append([]int(nil), history...)
	invs, k, m, err := c.shRun(w, 1, nil, nil, &history)
	if err != nil {
		c.HarnessError("%v", err)
		return nil
	}
	if k != "" {
		return fail(k, m, nil)
	}
	full := invs[0]
	evlog = append(evlog, fmt.Sprintf("reference run: %d steps, exit %d", full.steps, full.exit))
	c.NonTrivial(strings.Join(evlog, "\n"))
	c.Sample(map[string]any{"events": evlog, "steps": full.steps, "trace_head": head(full.trace, 12)})
	// Kill points: (command, occurrence).
	var points []killPoint
	occ := map[string]int{}
	for _, t := range full.trace {
		occ[t]++
		points = append(points, killPoint{t, occ[t]})
	}
	if extra != nil && extra["kill"] != nil {
		points = []killPoint{{fmt.Sprint(extra["kill"]), toInt(extra["occ"])}}
	}
	// The commands between a successful compile and the end of the run
	// switch 'current': every one of them is a kill point in both tiers, with
	// and without a further commit before the next run.
	critical := map[int]bool{}
	inSuccess := false
	for i, t := range full.trace {
		if t == "handle_success" {
			inSuccess = true
		}
		if inSuccess {
			critical[i] = true
		}
	}
	type variant struct {
		pi     int
		commit bool
	}
	var todo []variant
	for pi := range points {
		if extra != nil {
			todo = append(todo, variant{pi, extra["commit_after_kill"] == true})
			continue
		}
		if critical[pi] {
			todo = append(todo, variant{pi, false}, variant{pi, true})
		} else if !c.Quick || pi%6 == len(tp.Rec)%6 {
			todo = append(todo, variant{pi, (pi+len(tp.Rec))%3 == 0})
		}
	}
	for _, tv := range todo {
		pi, kp := tv.pi, points[tv.pi]
		if c.TimeUp() {
			break
		}
		w2, err := base.cloneWorld(c)
		if err != nil {
			c.HarnessError("%v", err)
			return nil
		}
		h := append([]int(nil), h0...)
		kpc := kp
		_, k, m, err := c.shRun(w2, 1, nil, &kpc, &h)
		c.Res.Evaluations++
		c.Count("kills", 1)
		ex := map[string]any{"mode": 1, "kill": kp.cmd, "occ": kp.occ}
		if err != nil {
			c.HarnessError("%v", err)
			os.RemoveAll(w2.dir)
			return nil
		}
		log2 := append(append([]string(nil), evlog...), fmt.Sprintf("kill -9 before %q (occurrence %d)", kp.cmd, kp.occ))
		f2 := func(key, msg string, ex map[string]any) *Failure {
			return &Failure{Key: key + "|" + killClass(kp.cmd), Msg: msg, Extra: ex, Log: log2, Input: map[string]any{"events": log2}}
		}
		_ = pi
		if k == "" && tv.commit {
			// Sometimes a further good revision arrives before the next run.
			if tok, err := w2.commit(true, ""); err == nil {
				log2 = append(log2, "commit "+tok+" good=true (after the kill)")
				ex["commit_after_kill"] = true
			}
		}
		if k != "" {
			if !c.NoteKnown(k + "|" + killClass(kp.cmd)) {
				os.RemoveAll(w2.dir)
				return f2(k, m, ex)
			}
		} else if f := c.shLiveness(w2, &h, &log2, f2, ex); f != nil {
			if !c.NoteKnown(f.Key) {
				os.RemoveAll(w2.dir)
				return f
			}
		}
		os.RemoveAll(w2.dir)
	}
	return nil
}

func head(l []string, n int) []string {
	if len(l) > n {
		return l[:n]
	}
	return l
}

// killClass normalises a command for the finding key.
func killClass(cmd string) string {
	f := strings.Fields(cmd)
	if len(f) == 0 {
		return "?"
	}
	if f[0] == "git" && len(f) > 1 {
		return "git " + f[1]
	}
	if strings.Contains(f[0], "=") {
		return "assignment"
	}
	return f[0]
}

// shLiveness: once faults stop, one undisturbed run makes the newest
// compiling revision current (within 400 steps).
func (c *Ctx) shLiveness(w *shWorld, history *[]int, evlog *[]string,
	fail func(string, string, map[string]any) *Failure, ex map[string]any) *Failure {

	invs, k, m, err := c.shRun(w, 1, nil, nil, history)
	if err != nil {
		c.HarnessError("liveness run: %v", err)
		return nil
	}
	*evlog = append(*evlog, fmt.Sprintf("undisturbed run: %d steps, exit %d, current history %v", invs[0].steps, invs[0].exit, *history))
	if k != "" {
		return fail(k, m, ex)
	}
	if invs[0].steps > 400 {
		return fail("liveness", fmt.Sprintf("undisturbed run needed %d steps", invs[0].steps), ex)
	}
	tok, bad := w.originHead()
	if bad {
		return nil // newest revision does not compile and could not be reverted
	}
	data, err := os.ReadFile(filepath.Join(w.dir, "policies", "current", "code", ".compiled-ok"))
	got := strings.TrimSpace(string(data))
	if err != nil || got != tok {
		if _, e := os.Stat(filepath.Join(w.dir, "policies", "next", "src", ".git")); e == nil {
			return &Failure{Key: "liveness|stale-next-dir",
				Msg:   fmt.Sprintf("a killed run left policies/next with a checked-out source tree; the undisturbed run ended through 'uptodate' without compiling: 'current' holds revision %q, newest compiling revision is %q", got, tok),
				Extra: ex, Log: *evlog, Input: map[string]any{"events": *evlog}}
		}
		return fail("liveness", fmt.Sprintf("after an undisturbed run 'current' holds revision %q, newest compiling revision is %q", got, tok), ex)
	}
	return nil
}

func init() {
	Registry["C19"] = c19Run
	_ = sort.Strings
}
