package prop

import (
	"fmt"
	"strings"

	"verif/sim/tape"
)

// C06 (ASA / IOS part): the configuration product hostname x marker x front
// end is enumerated completely for every sampled (A,B).
func c06Cisco(c *Ctx, tp *tape.Tape, extra map[string]any) *Failure {
	kind := "ASA"
	if tp.Next(2) == 1 {
		kind = "IOS"
	}
	cs := GenCiscoCase(tp, kind)
	base := DefaultLiveOpts(tp)
	base.Compare = false
	type combo struct {
		front, host, marker string
	}
	var combos []combo
	for _, fr := range []string{"drc", "do-approve"} {
		for _, h := range []string{"", "other", "ROUTER", "router2", "rout"} {
			for _, m := range []string{"present", "absent", "unconfigured", "partial"} {
				combos = append(combos, combo{fr, h, m})
			}
		}
	}
	if extra != nil {
		combos = []combo{{fmt.Sprint(extra["front"]), fmt.Sprint(extra["host"]), fmt.Sprint(extra["marker"])}}
	}
	scriptOf := func(r *LiveResult) []string {
		var l []string
		for _, rec := range r.Dev.Transcr {
			if rec.Class == "change" {
				l = append(l, rec.Line)
			}
		}
		return l
	}
	run := func(cb combo) (*LiveResult, LiveOpts) {
		o := base
		o.Front = cb.front
		o.Hostname = cb.host
		switch cb.marker {
		case "absent":
			o.Banner = "Authorized access only"
		case "unconfigured":
			o.CheckBanner = ""
			o.Banner = "Authorized access only"
		case "partial":
			o.Banner = "managed by NetSPo" // not the configured text
		}
		return c.LiveCisco(cs, o, tape.Replay(nil)), o
	}
	ref, _ := run(combo{"drc", "", "present"})
	refScript := scriptOf(ref)
	if len(refScript) > 0 && ref.Res.Exit == 0 {
		c.NonTrivial(ciscoPrint(cs), cs.Files["router"])
	}
	c.Sample(map[string]any{"kind": kind, "combos": len(combos), "reference_script": refScript})
	for _, cb := range combos {
		r, o := run(cb)
		c.Res.Evaluations++
		c.Count("combo:"+cb.host+"/"+cb.marker, 1)
		fail := func(sym, msg string) *Failure {
			key := fmt.Sprintf("%s|%s|%s|%s", kind, cond(cb.host, cb.marker), sym, cb.front)
			if c.NoteKnown(key) {
				return nil
			}
			in := cs.Input()
			in["opts"] = fmt.Sprintf("%+v", o)
			in["stderr"] = strings.Split(r.Res.Stderr, "\n")
			return &Failure{Key: key, Msg: msg, Input: in, Log: tail(r.Log, 50),
				Extra: map[string]any{"front": cb.front, "host": cb.host, "marker": cb.marker}}
		}
		if r.Trouble != "" {
			if f := fail("no-exit", r.Trouble); f != nil {
				return f
			}
			continue
		}
		if r.Res.Panic != "" {
			if f := fail("panic", firstLine(r.Res.Panic)); f != nil {
				return f
			}
			continue
		}
		wrong := cb.host != "" || cb.marker == "absent" || cb.marker == "partial"
		if wrong {
			for _, rec := range r.Dev.Transcr {
				bad := rec.Class == "change" || rec.Class == "guard" || rec.Class == "save" ||
					(rec.Class == "prep" && !strings.HasPrefix(rec.Line, "terminal width "))
				if bad {
					sym := "script-sent"
					if rec.Class == "save" {
						sym = "saved"
					}
					if f := fail(sym, fmt.Sprintf("%s command %q sent to a device that is %s", rec.Class, rec.Line, cond(cb.host, cb.marker))); f != nil {
						return f
					}
					break
				}
			}
			if r.Res.Exit == 0 {
				if f := fail("exit-0", "exit status 0"); f != nil {
					return f
				}
			}
			diag := r.Res.Stderr + r.RunLog
			if !strings.Contains(diag, "ERROR>>>") {
				if f := fail("no-diagnostic", "no ERROR>>> line"); f != nil {
					return f
				}
			}
			continue
		}
		// Right device; marker present or not configured: works normally.
		if ref.Res.Exit == 0 {
			if r.Res.Exit != 0 {
				if f := fail("fails-on-right-device", "exit "+fmt.Sprint(r.Res.Exit)+": "+firstLine(r.Res.Stderr+r.RunLog)); f != nil {
					return f
				}
				continue
			}
			if got := scriptOf(r); strings.Join(got, "\n") != strings.Join(refScript, "\n") {
				if f := fail("script-differs", fmt.Sprintf("script differs from the reference run: %q vs %q", got, refScript)); f != nil {
					return f
				}
			}
		}
	}
	return nil
}

func cond(host, marker string) string {
	switch {
	case host != "":
		return "wrong-hostname"
	case marker == "absent" || marker == "partial":
		return "marker-absent"
	case marker == "unconfigured":
		return "marker-unconfigured"
	}
	return "right-device"
}

func init() { Registry["C06"] = c06Cisco }
