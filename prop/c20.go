package prop

import (
	"fmt"
	"hash/fnv"
	"os"
	"os/exec"
	"path/filepath"
	"sort"
	"strings"
	"sync/atomic"
	"time"

	"github.com/hknutzen/Netspoc-Approve/go/pkg/drc"
	"verif/sim/tape"
	"verif/sim/world"
)

type mutant struct {
	desc  string
	text  string
	build func() string // lazily built text
}

func (m *mutant) get() string {
	if m.build != nil {
		m.text = m.build()
		m.build = nil
	}
	return m.text
}

// mutations enumerates the family of the statement for one text.
func mutations(text string) []mutant {
	var res []mutant
	res = append(res, mutant{desc: "empty"}, mutant{desc: "garbage", text: "\x00\xff%$&(){[<\n\t  \n;;\n"})
	lines := strings.Split(text, "\n")
	join := func(l []string) string { return strings.Join(l, "\n") }
	with := func(i int, repl ...string) string {
		l := append([]string(nil), lines[:i]...)
		l = append(l, repl...)
		l = append(l, lines[i+1:]...)
		return join(l)
	}
	for i, line := range lines {
		if strings.TrimSpace(line) == "" {
			continue
		}
		indent := line[:len(line)-len(strings.TrimLeft(line, " "))]
		words := strings.Fields(line)
		// word-prefix truncations
		for n := 1; n < len(words); n++ {
			n := n
			res = append(res, mutant{desc: fmt.Sprintf("line %d truncated to %d words", i+1, n),
				build: func() string { return with(i, indent+strings.Join(words[:n], " ")) }})
		}
		// single-token deletions
		for n := 0; n < len(words); n++ {
			w := append(append([]string(nil), words[:n]...), words[n+1:]...)
			if len(w) == 0 {
				continue
			}
			res = append(res, mutant{desc: fmt.Sprintf("line %d without word %d", i+1, n+1),
				build: func() string { return with(i, indent+strings.Join(w, " ")) }})
		}
		res = append(res, mutant{desc: fmt.Sprintf("line %d duplicated", i+1), build: func() string { return with(i, line, line) }})
		if i+1 < len(lines) && strings.TrimSpace(lines[i+1]) != "" {
			res = append(res, mutant{desc: fmt.Sprintf("line %d swapped with next", i+1), build: func() string {
				l := append([]string(nil), lines...)
				l[i], l[i+1] = l[i+1], l[i]
				return join(l)
			}})
		}
		res = append(res, mutant{desc: fmt.Sprintf("line %d indent +1", i+1), build: func() string { return with(i, " "+line) }})
		if strings.HasPrefix(line, " ") {
			res = append(res, mutant{desc: fmt.Sprintf("line %d indent -1", i+1), build: func() string { return with(i, line[1:]) }})
		}
	}
	return res
}

var caseStart atomic.Int64
var caseDesc atomic.Value

// c20Driver enumerates the family deterministically; worker w takes every
// NWorkers-th mutant; the quick tier takes a hash-selected slice.
func c20Driver(c *Ctx) {
	corpus, err := Corpus()
	if err != nil {
		c.HarnessError("corpus: %v", err)
		return
	}
	// Watchdog: a case that needs more than 180 s of real time hangs.
	done := make(chan struct{})
	defer close(done)
	go func() {
		for {
			select {
			case <-done:
				return
			case <-time.After(time.Second):
			}
			if st := caseStart.Load(); st != 0 && time.Since(time.Unix(0, st)) > 180*time.Second {
				d, _ := caseDesc.Load().(map[string]any)
				c.Res.Violations = append(c.Res.Violations, Replay{Property: "C20", Seed: c.Seed,
					Key: "hang|" + fmt.Sprint(d["model"]) + "|" + fmt.Sprint(d["role"]), Msg: "drc did not terminate within 180 s",
					Extra: d})
				c.Finish()
				os.Exit(0)
			}
		}
	}()
	slice := uint32(5) // quick: 1/5 of the family (raw and info files: 1/2)
	if !c.Quick {
		slice = 1
		c.Res.Exhaustive = true
	}
	n := 0
	for _, cc := range corpus {
		if cc.File == "ios_long-acl.t" {
			// 10000-line ACL: sampled 1:50 by line through the hash slice below.
		}
		type target struct {
			role string
			name string // file name in code dir, or "device"
			text string
		}
		var targets []target
		if cc.Device != "" {
			targets = append(targets, target{"device", "device", cc.Device})
		}
		if cc.Device != "" || cc.Scen == "" {
			names := make([]string, 0, len(cc.Files))
			for name := range cc.Files {
				names = append(names, name)
			}
			sort.Strings(names)
			for _, name := range names {
				role := "code"
				switch {
				case strings.HasSuffix(name, ".info"):
					role = "info"
				case strings.HasSuffix(name, ".raw"):
					role = "raw"
				case strings.HasPrefix(name, "ipv6/"):
					role = "ipv6"
				}
				targets = append(targets, target{role, name, cc.Files[name]})
			}
		}
		if cc.Device == "" {
			continue // simulator scenarios are covered by the session checks
		}
		for _, tg := range targets {
			muts := mutations(tg.text)
			if cc.File == "ios_long-acl.t" {
				var m2 []mutant
				for i, m := range muts {
					if i%50 == 0 {
						m2 = append(m2, m)
					}
				}
				muts = m2
			}
			muts = append(muts, mutant{desc: "unreadable (path is a directory)", text: "\x00DIR"})
			for mi, m := range muts {
				n++
				if n%c.NWorkers != c.Worker {
					continue
				}
				h := fnv.New32a()
				fmt.Fprintf(h, "%d|%s|%s|%s|%d", c.Seed, cc.File, cc.Title, tg.name, mi)
				sl := slice
				if sl > 2 && (tg.role == "raw" || tg.role == "info") {
					sl = 2
				}
				if h.Sum32()%sl != 0 {
					continue
				}
				if c.TimeUp() {
					c.Count("stopped_by_time", 1)
					c.Res.Exhaustive = false
					return
				}
				c.Res.Evaluations++
				if f := c.c20Case(cc, tg.role, tg.name, m); f != nil {
					if !c.NoteKnown(f.Key) {
						f.Extra = map[string]any{"corpus": cc.File + "|" + cc.Title, "file": tg.name, "mutant": mi}
						c.handle(c20Replay, -1, nil, f)
					}
				}
			}
		}
	}
	c.c20Status()
}

func (c *Ctx) c20Case(cc CorpusCase, role, name string, m mutant) *Failure {
	m.get()
	files := map[string]string{}
	info := ""
	for n, v := range cc.Files {
		if n == "router.info" {
			info = v
		} else {
			files[n] = v
		}
	}
	dev := cc.Device
	dirs := []string{}
	switch {
	case name == "device":
		dev = m.text
	case name == "router.info":
		info = m.text
		if info == "" {
			info = "\n"
		}
	default:
		files[name] = m.text
	}
	if m.text == "\x00DIR" {
		switch name {
		case "device":
			dev = ""
			dirs = append(dirs, "DEVICE")
		case "router.info":
			info = "NONE"
			dirs = append(dirs, "router.info")
		default:
			delete(files, name)
			dirs = append(dirs, name)
		}
	}
	w, err := world.New(c.Root, world.Opts{Model: cc.Model, Files: files, Info: info})
	if err != nil {
		c.T.Fatal(err)
	}
	defer os.RemoveAll(w.Dir)
	devFile := filepath.Join(w.Dir, "device")
	os.WriteFile(devFile, []byte(dev), 0644)
	for _, d := range dirs {
		if d == "DEVICE" {
			os.Remove(devFile)
			os.Mkdir(devFile, 0755)
		} else {
			os.MkdirAll(filepath.Join(filepath.Dir(w.CodeFile()), d), 0755)
		}
	}
	caseDesc.Store(map[string]any{"model": cc.Model, "role": role, "corpus": cc.File + "|" + cc.Title, "file": name, "mutation": m.desc})
	caseStart.Store(time.Now().UnixNano())
	res := w.Call([]string{"drc", devFile, w.CodeFile()}, drc.Main)
	caseStart.Store(0)
	c.Count("exit_"+fmt.Sprint(res.Exit), 1)
	c.NonTrivial(cc.File, cc.Title, name, m.desc)
	c.Sample(map[string]any{"corpus": cc.File + ": " + cc.Title, "file": name, "mutation": m.desc, "exit": res.Exit,
		"stderr": firstLine(res.Stderr)})
	in := map[string]any{"corpus": cc.File + ": " + cc.Title, "model": cc.Model, "file": name, "mutation": m.desc,
		"mutated_text": strings.Split(m.text, "\n"), "stderr": strings.Split(res.Stderr, "\n")}
	switch {
	case res.Panic != "":
		in["panic"] = strings.Split(res.Panic, "\n")
		return &Failure{Key: fmt.Sprintf("panic|%s|%s|%s", cc.Model, panicFunc(res.Panic), role),
			Msg: "drc dies from a runtime panic: " + firstLine(res.Panic), Input: in}
	case res.Exit != 0 && res.Exit != 1:
		return &Failure{Key: fmt.Sprintf("exit>1|%s|%s", cc.Model, role), Msg: fmt.Sprintf("exit status %d", res.Exit), Input: in}
	case res.Exit == 1 && strings.TrimSpace(res.Stderr) == "":
		return &Failure{Key: fmt.Sprintf("no-diagnostic|%s|%s", cc.Model, role), Msg: "exit status 1 without any message", Input: in}
	}
	return nil
}

func c20Replay(c *Ctx, tp *tape.Tape, extra map[string]any) *Failure {
	if extra == nil {
		return nil
	}
	if st, ok := extra["status"]; ok {
		if key, msg := c.c20StatusCase(fmt.Sprint(st)); key != "" {
			return &Failure{Key: key, Msg: msg, Extra: extra}
		}
		return nil
	}
	corpus, _ := Corpus()
	for _, cc := range corpus {
		if cc.File+"|"+cc.Title != fmt.Sprint(extra["corpus"]) {
			continue
		}
		name := fmt.Sprint(extra["file"])
		text := cc.Device
		role := "device"
		if name != "device" {
			text = cc.Files[name]
			role = "code"
			switch {
			case strings.HasSuffix(name, ".info"):
				role = "info"
			case strings.HasSuffix(name, ".raw"):
				role = "raw"
			case strings.HasPrefix(name, "ipv6/"):
				role = "ipv6"
			}
		}
		muts := mutations(text)
		if cc.File == "ios_long-acl.t" {
			var m2 []mutant
			for i, m := range muts {
				if i%50 == 0 {
					m2 = append(m2, m)
				}
			}
			muts = m2
		}
		muts = append(muts, mutant{desc: "unreadable (path is a directory)", text: "\x00DIR"})
		mi := toInt(extra["mutant"])
		if mi < len(muts) {
			f := c.c20Case(cc, role, name, muts[mi])
			if f != nil {
				f.Extra = extra
			}
			return f
		}
	}
	return nil
}

// c20Status: missing-approve and do-approve on damaged status files (real binaries).
func (c *Ctx) c20Status() {
	bin := os.Getenv("VERIF_BIN")
	if bin == "" || c.Worker != 0 {
		return
	}
	good := `{"approve":{"result":"OK","policy":"p1","time":1727626790},"compare":{"result":"UPTODATE","policy":"p1","time":1727626791}}`
	muts := mutations(good)
	for i := 1; i < len(good); i += 7 {
		muts = append(muts, mutant{desc: fmt.Sprintf("torn after %d bytes", i), text: good[:i]})
	}
	muts = append(muts, mutant{desc: "wrong types", text: `{"approve":{"result":5,"policy":[],"time":"x"},"compare":null}`},
		mutant{desc: "array", text: `[1,2,3]`}, mutant{desc: "unreadable (path is a directory)", text: "\x00DIR"})
	for mi, m := range muts {
		if c.Quick && mi%4 != 0 {
			continue
		}
		m.get()
		c.Res.Evaluations++
		c.Count("status_cases", 1)
		c.NonTrivial("status", m.desc)
		if key, msg := c.c20StatusCase(m.text); key != "" && !c.NoteKnown(key) && !c.reported[key] {
			c.reported[key] = true
			c.Res.Violations = append(c.Res.Violations, Replay{Property: "C20", Seed: c.Seed, Key: key,
				Msg: msg + " (status file: " + m.desc + ")", Extra: map[string]any{"status": m.text},
				Input: map[string]any{"status_file": m.text}})
		}
	}
}

// c20StatusCase runs the real missing-approve binary on one status file.
func (c *Ctx) c20StatusCase(text string) (key, msg string) {
	bin := os.Getenv("VERIF_BIN")
	if bin == "" {
		bin = "/verif/.build/bin"
	}
	w, err := world.New(c.Root, world.Opts{Model: "IOS", Files: map[string]string{"router": "ip route 10.0.0.0 255.0.0.0 10.1.1.1\n"}})
	if err != nil {
		c.T.Fatal(err)
	}
	defer os.RemoveAll(w.Dir)
	st := filepath.Join(w.Dir, "status", "router")
	if text == "\x00DIR" {
		os.Mkdir(st, 0755)
	} else {
		os.WriteFile(st, []byte(text), 0644)
	}
	cmd := exec.Command(filepath.Join(bin, "missing-approve"))
	cmd.Env = append(os.Environ(), "HOME="+w.Dir)
	cmd.Dir = w.Dir
	out, err := cmd.CombinedOutput()
	code := 0
	if ee, ok := err.(*exec.ExitError); ok {
		code = ee.ExitCode()
	} else if err != nil {
		c.HarnessError("missing-approve: %v", err)
	}
	if code > 1 || strings.Contains(string(out), "panic:") || strings.Contains(string(out), "goroutine ") {
		return "panic|missing-approve|status", fmt.Sprintf("missing-approve exit %d: %s", code, firstLine(string(out)))
	}
	return "", ""
}

func init() {
	Registry["C20"] = c20Replay
	Drivers["C20"] = c20Driver
}
