package prop

import (
	"fmt"
	"os"
	"path/filepath"
	"sort"
	"strings"
	"testing/synctest"
	"time"

	"github.com/hknutzen/Netspoc-Approve/go/pkg/doapprove"
	"github.com/hknutzen/Netspoc-Approve/go/pkg/drc"
	"github.com/hknutzen/Netspoc-Approve/go/pkg/verifhook"
	expect "github.com/tailscale/goexpect"
	"verif/sim/cisco"
	"verif/sim/evlog"
	"verif/sim/linuxdev"
	"verif/sim/sshx"
	"verif/sim/tape"
	"verif/sim/world"
)

// ---- generator ----------------------------------------------------------------

type LinuxCase struct {
	A       *linuxdev.Host // device before
	BRoutes []linuxdev.Route
	BRules  *linuxdev.Ruleset
	Files   map[string]string
	Ops     []string
	Spell   int
	DupDst  bool // the target has two routes to one destination (the kernel refuses the second)
}

// Some networks share the network address and differ in the prefix length.
var lxNets = []string{"10.1.1.0/24", "10.1.2.0/24", "10.2.0.0/16", "10.1.1.1", "192.168.1.0/24", "default", "10.3.3.3", "10.2.0.0/24", "10.1.1.0/25"}
var lxHops = []string{"10.9.0.1", "10.9.0.2", "10.9.0.3"}

func genLxRule(tp *tape.Tape, chains []string, self string) linuxdev.Rule {
	var r linuxdev.Rule
	add := func(k, v string, neg bool) { r.Opts = append(r.Opts, linuxdev.Opt{Key: k, Val: v, Neg: neg}) }
	// target
	switch tp.Next(6) {
	case 0:
		add("-j", "DROP", false)
	case 1:
		if len(chains) > 0 {
			c := chains[tp.Next(len(chains))]
			if c != self {
				add([]string{"-j", "-g"}[tp.Next(2)], c, false)
				break
			}
		}
		add("-j", "ACCEPT", false)
	case 2:
		add("-j", "LOG", false)
		add("--log-level", []string{"debug", "7", "4", "info"}[tp.Next(4)], false)
	case 3:
		add("-j", "MARK", false)
		add("--set-mark", []string{"5", "0x10", "255"}[tp.Next(3)], false)
	default:
		add("-j", "ACCEPT", false)
	}
	if tp.Next(2) == 0 {
		add("-s", []string{"10.1.1.1", "10.1.1.0/24", "10.2.0.0/16", "10.1.11.111"}[tp.Next(4)], tp.Next(8) == 0)
	}
	if tp.Next(2) == 0 {
		add("-d", []string{"10.10.1.2", "10.10.1.0/30", "224.0.0.18", "10.3.0.0/16"}[tp.Next(4)], tp.Next(10) == 0)
	}
	if tp.Next(4) == 0 {
		add("-i", []string{"eth0", "eth1"}[tp.Next(2)], false)
	}
	switch tp.Next(6) {
	case 0:
		add("-p", "tcp", false)
		add("--dport", []string{"22", "80", "1024:", "3000:4000", "443"}[tp.Next(5)], false)
		if tp.Next(4) == 0 {
			add("--sport", []string{"1024:", "53"}[tp.Next(2)], false)
		}
	case 1:
		add("-p", "udp", false)
		add("--dport", []string{"53", "123", "3400:3500", "1024:"}[tp.Next(4)], false)
	case 2:
		add("-p", "icmp", false)
		add("--icmp-type", []string{"0", "8", "3/4"}[tp.Next(3)], false)
	case 3:
		add("-p", []string{"112", "58", "50"}[tp.Next(3)], false)
	case 4:
		add("-p", "tcp", false)
		add("--syn", "", tp.Next(2) == 0)
	}
	if tp.Next(6) == 0 {
		add("-m", "state", false)
		add("--state", []string{"ESTABLISHED,RELATED", "NEW", "ESTABLISHED"}[tp.Next(3)], false)
	}
	return r
}

func genLxRules(tp *tape.Tape) *linuxdev.Ruleset {
	rs := &linuxdev.Ruleset{}
	t := &linuxdev.Table{Name: "filter"}
	t.Chains = append(t.Chains,
		&linuxdev.Chain{Name: "INPUT", Policy: []string{"DROP", "ACCEPT"}[tp.Next(2)]},
		&linuxdev.Chain{Name: "FORWARD", Policy: "DROP"},
		&linuxdev.Chain{Name: "OUTPUT", Policy: "ACCEPT"})
	var user []string
	for i, n := 0, tp.Next(4); i < n; i++ {
		name := fmt.Sprintf("c%d", i+1)
		user = append(user, name)
		t.Chains = append(t.Chains, &linuxdev.Chain{Name: name, Policy: "-"})
	}
	for _, c := range t.Chains {
		for i, n := 0, tp.Next(4); i < n; i++ {
			c.Rules = append(c.Rules, genLxRule(tp, user, c.Name))
		}
	}
	rs.Tables = append(rs.Tables, t)
	if tp.Next(4) == 0 {
		nat := &linuxdev.Table{Name: "nat"}
		nat.Chains = append(nat.Chains, &linuxdev.Chain{Name: "PREROUTING", Policy: "ACCEPT"},
			&linuxdev.Chain{Name: "POSTROUTING", Policy: "ACCEPT"}, &linuxdev.Chain{Name: "OUTPUT", Policy: "ACCEPT"})
		nat.Chains[1].Rules = append(nat.Chains[1].Rules, linuxdev.Rule{Opts: []linuxdev.Opt{
			{Key: "-j", Val: "SNAT"}, {Key: "-s", Val: "10.1.2.3"}, {Key: "-d", Val: "192.168.1.16/29"}, {Key: "--to-source", Val: "10.2.3.4"}}})
		rs.Tables = append(rs.Tables, nat)
	}
	return rs
}

func genLxRoutes(tp *tape.Tape) []linuxdev.Route {
	var l []linuxdev.Route
	seen := map[string]bool{}
	for i, n := 0, tp.Next(5); i < n; i++ {
		d := lxNets[tp.Next(len(lxNets))]
		if seen[d] {
			continue
		}
		seen[d] = true
		l = append(l, linuxdev.Route{Dst: d, Via: lxHops[tp.Next(len(lxHops))], Dev: "eth0", Kind: "static"})
	}
	return l
}

func renderLxRoutes(l []linuxdev.Route) string {
	var b strings.Builder
	for _, r := range l {
		fmt.Fprintf(&b, "ip route add %s via %s\n", r.Dst, r.Via)
	}
	return b.String()
}

// GenLinuxCase draws target and device.
func GenLinuxCase(tp *tape.Tape) *LinuxCase {
	cs := &LinuxCase{}
	cs.BRoutes = genLxRoutes(tp)
	cs.BRules = genLxRules(tp)
	a := &linuxdev.Host{Hostname: "router", Issue: "Debian GNU/Linux 11\nmanaged by NetSPoC\n",
		Files: map[string]string{}, Exec: map[string]bool{}}
	// Several routes to one destination in the target (e.g. one from Netspoc,
	// one from raw).  A device can hold only one of them.
	if len(cs.BRoutes) > 0 && tp.Next(8) == 0 {
		r := cs.BRoutes[tp.Next(len(cs.BRoutes))]
		r.Via = "10.9.0.4"
		a.Routes = append(a.Routes, cs.BRoutes...)
		cs.BRoutes = append(cs.BRoutes, r)
		cs.DupDst = true
		cs.Ops = append(cs.Ops, "target has a second route to "+r.Dst)
	} else {
		a.Routes = append(a.Routes, cs.BRoutes...)
	}
	a.Rules = cs.BRules.Clone()
	// Edits.
	for i, n := 0, tp.Next(5); i < n; i++ {
		switch tp.Next(10) {
		case 0:
			if len(a.Routes) > 0 {
				j := tp.Next(len(a.Routes))
				a.Routes[j].Via = "10.9.0.7"
				cs.Ops = append(cs.Ops, "other hop for "+a.Routes[j].Dst)
			}
		case 1:
			if len(a.Routes) > 0 {
				j := tp.Next(len(a.Routes))
				cs.Ops = append(cs.Ops, "route missing on device: "+a.Routes[j].Dst)
				a.Routes = append(a.Routes[:j:j], a.Routes[j+1:]...)
			}
		case 2:
			d := lxNets[tp.Next(len(lxNets))]
			dup := false
			for _, r := range a.Routes {
				if r.Dst == d {
					dup = true
				}
			}
			if !dup {
				a.Routes = append(a.Routes, linuxdev.Route{Dst: d, Via: lxHops[tp.Next(len(lxHops))], Dev: "eth0", Kind: "static"})
				cs.Ops = append(cs.Ops, "extra route on device: "+d)
			}
		case 3: // kernel / link / other-protocol routes (to be ignored by the tool)
			a.Routes = append(a.Routes, linuxdev.Route{Dst: "10.9.0.0/24", Dev: "eth0", Kind: "kernel"},
				linuxdev.Route{Dst: "169.254.0.0/16", Dev: "eth1", Kind: "link"})
			if tp.Next(2) == 0 {
				a.Routes = append(a.Routes, linuxdev.Route{Dst: "10.44.0.0/16", Via: "10.9.0.44", Dev: "eth0", Kind: "proto"})
			}
			cs.Ops = append(cs.Ops, "kernel/link routes on device")
		case 4, 5: // rule edit
			t := a.Rules.Tables[0]
			c := t.Chains[tp.Next(len(t.Chains))]
			switch tp.Next(4) {
			case 0:
				if len(c.Rules) > 0 {
					j := tp.Next(len(c.Rules))
					c.Rules = append(c.Rules[:j:j], c.Rules[j+1:]...)
					cs.Ops = append(cs.Ops, "rule missing in "+c.Name)
				}
			case 1:
				var user []string
				for _, x := range t.Chains {
					if x.Policy == "-" {
						user = append(user, x.Name)
					}
				}
				c.Rules = append(c.Rules, genLxRule(tp, user, c.Name))
				cs.Ops = append(cs.Ops, "extra rule in "+c.Name)
			case 2:
				if len(c.Rules) > 1 {
					j := tp.Next(len(c.Rules) - 1)
					c.Rules[j], c.Rules[j+1] = c.Rules[j+1], c.Rules[j]
					cs.Ops = append(cs.Ops, "rules swapped in "+c.Name)
				}
			case 3: // one option value differs
				if len(c.Rules) > 0 {
					j := tp.Next(len(c.Rules))
					r := &c.Rules[j]
					o := tp.Next(len(r.Opts))
					old := r.Opts[o]
					switch old.Key {
					case "--dport", "--sport":
						switch tp.Next(5) {
						case 0: // sibling: one more trailing zero
							v := old.Val
							if strings.HasSuffix(v, ":") {
								v = strings.TrimSuffix(v, ":") + "0:"
							} else {
								v += "0"
							}
							r.Opts[o].Val = v
						case 1: // sibling: trailing zero less
							if v := strings.TrimSuffix(old.Val, "0"); v != old.Val && v != "" && !strings.HasSuffix(v, ":") {
								r.Opts[o].Val = v
							} else {
								r.Opts[o].Val = "81"
							}
						default:
							r.Opts[o].Val = []string{"81", "1025:", "2000:2100"}[tp.Next(3)]
						}
					case "-s", "-d":
						r.Opts[o].Val = []string{"10.1.1.2", "10.1.1.0/25", "10.77.0.0/16"}[tp.Next(3)]
					case "--state":
						r.Opts[o].Val = []string{"NEW,ESTABLISHED", "RELATED"}[tp.Next(2)]
					case "--set-mark":
						r.Opts[o].Val = []string{"6", "0x11"}[tp.Next(2)]
					case "--log-level":
						r.Opts[o].Val = []string{"5", "warning"}[tp.Next(2)]
					case "-p":
						r.Opts[o].Val = []string{"47", "tcp", "udp"}[tp.Next(3)]
					default:
						r.Opts[o].Neg = !r.Opts[o].Neg
					}
					cs.Ops = append(cs.Ops, fmt.Sprintf("option %s of rule %d in %s differs", old.Key, j, c.Name))
					// Sometimes a second option of the same rule differs, too.
					if len(r.Opts) > 1 && tp.Next(2) == 0 {
						o2 := (o + 1 + tp.Next(len(r.Opts)-1)) % len(r.Opts)
						if r.Opts[o2].Key != "-j" && r.Opts[o2].Key != "-g" && r.Opts[o2].Key != "-m" {
							r.Opts[o2].Val += "9"
							if r.Opts[o2].Val == "9" {
								r.Opts[o2].Neg = !r.Opts[o2].Neg
								r.Opts[o2].Val = ""
							}
							cs.Ops = append(cs.Ops, fmt.Sprintf("option %s of the same rule differs, too", r.Opts[o2].Key))
						}
					}
				}
			}
		case 9: // a port of some rule differs only by a trailing zero
			var cand [][3]int
			for ci, c := range a.Rules.Tables[0].Chains {
				for ri, r := range c.Rules {
					for oi, o := range r.Opts {
						if o.Key == "--dport" || o.Key == "--sport" {
							cand = append(cand, [3]int{ci, ri, oi})
						}
					}
				}
			}
			if len(cand) > 0 {
				x := cand[tp.Next(len(cand))]
				c := a.Rules.Tables[0].Chains[x[0]]
				o := &c.Rules[x[1]].Opts[x[2]]
				v := o.Val
				if strings.HasSuffix(v, ":") {
					v = strings.TrimSuffix(v, ":") + "0:"
				} else if len(v) < 5 || strings.Contains(v, ":") {
					v += "0"
				}
				if v != o.Val {
					o.Val = v
					cs.Ops = append(cs.Ops, fmt.Sprintf("port of rule %d in %s has one more trailing zero on device", x[1], c.Name))
				}
			}
		case 6:
			c := a.Rules.Tables[0].Chains[0]
			if c.Policy == "DROP" {
				c.Policy = "ACCEPT"
			} else {
				c.Policy = "DROP"
			}
			cs.Ops = append(cs.Ops, "policy of INPUT differs")
		case 7:
			a.Rules.Tables[0].Chains = append(a.Rules.Tables[0].Chains, &linuxdev.Chain{Name: "oldchain", Policy: "-"})
			cs.Ops = append(cs.Ops, "extra chain on device")
		case 8:
			if len(a.Rules.Tables) > 1 {
				a.Rules.Tables = a.Rules.Tables[:1]
				cs.Ops = append(cs.Ops, "table nat missing on device")
			}
		}
	}
	if tp.Chance(1, 2) {
		cs.Spell = tp.Next(512)
	}
	a.SetSpell(cs.Spell)
	cs.A = a
	cs.Files = map[string]string{"router": renderLxRoutes(cs.BRoutes) + cs.BRules.RenderNetspoc()}
	return cs
}

func (cs *LinuxCase) DeviceText() string {
	var b strings.Builder
	for _, r := range cs.A.Routes {
		out, _, _ := (&linuxdev.Host{Routes: []linuxdev.Route{r}, Rules: &linuxdev.Ruleset{}}).Run("ip route show")
		b.WriteString("ip route add " + out)
	}
	b.WriteString(cs.A.Rules.Save(cs.Spell))
	return b.String()
}

func (cs *LinuxCase) Input() map[string]any {
	return map[string]any{"device": strings.Split(cs.DeviceText(), "\n"), "target": strings.Split(cs.Files["router"], "\n"),
		"ops": cs.Ops, "spell": cs.Spell}
}

func wantRoutes(l []linuxdev.Route) []string {
	h := &linuxdev.Host{Routes: l}
	return h.StaticRoutes()
}

// ---- live session ----------------------------------------------------------------

var scpBin string

// LiveLinux runs the real tool against the Linux node inside a bubble.
func (c *Ctx) LiveLinux(cs *LinuxCase, host *linuxdev.Host, o LiveOpts) *LiveResult {
	pw := o.Password
	if pw == "" {
		pw = "secret"
	}
	w := o.World
	if w == nil {
		var err error
		w, err = world.New(c.Root, world.Opts{Model: "Linux", Files: cs.Files,
			CheckBanner: o.CheckBanner, Timeout: o.Timeout, LoginTO: o.LoginTO, Password: pw})
		if err != nil {
			c.T.Fatal(err)
		}
		defer os.RemoveAll(w.Dir)
	}
	// Stub scp first on PATH; it delivers into the node's inbox.
	bin := filepath.Join(w.Dir, "stubbin")
	os.MkdirAll(bin, 0755)
	data, err := os.ReadFile("/verif/sim/sh/scp")
	if err != nil {
		c.T.Fatal(err)
	}
	os.WriteFile(filepath.Join(bin, "scp"), data, 0755)
	inbox := filepath.Join(w.Dir, "scp-inbox")
	os.MkdirAll(inbox, 0755)
	host.ScpDir = inbox
	oldPath := os.Getenv("PATH")
	os.Setenv("PATH", bin+":"+oldPath)
	os.Setenv("VERIF_SCP_DIR", inbox)
	defer os.Setenv("PATH", oldPath)
	log := evlog.New()
	dev := &linuxdev.Device{Host: host, Log: log, Password: pw, HostKeyQ: o.HostKeyQ, Faults: o.Faults, FaultSeq: -1}
	if o.Hostname != "" {
		host.Hostname = o.Hostname
	}
	r := &LiveResult{LDev: dev, Kind: "Linux"}
	var sessions []*sshx.Session
	var args []string
	mainFn := drc.Main
	if o.Front == "drc" {
		args = []string{"drc", "-L", w.LogDir()}
		if o.Compare {
			args = append(args, "-C")
		}
		args = append(args, w.CodeFile())
	} else {
		mainFn = doapprove.Main
		args = []string{"do-approve"}
		if o.Compare {
			args = append(args, "compare", w.DevName)
		} else {
			args = append(args, "approve", w.DevName)
		}
	}
	r.Trouble = world.Bubble(c.T, func() {
		log.Start()
		verifhook.Console = func(cmd []string, timeout time.Duration) (*expect.GExpect, error) {
			var sched *tape.Tape
			if (o.Chunk || o.Latency) && o.SchedSeed != 0 {
				sched = tape.New(uint64(o.SchedSeed), 7)
			}
			s := sshx.New(log, sched, func() {
				synctest.Wait()
				time.Sleep(time.Millisecond)
				synctest.Wait()
			})
			s.ChunkOn, s.LatencyOn = o.Chunk, o.Latency
			// Legal latency stays below every configured timeout (a reply later
			// than that is the fault kind 'stall').
			s.MaxDelay = min(time.Duration(o.Timeout)*time.Second/3, time.Duration(o.LoginTO)*time.Second/2)
			sessions = append(sessions, s)
			dev.Sess = s
			log.Add("tool", "spawn %s", strings.Join(cmd, " "))
			go dev.Serve()
			return s.Spawn(timeout)
		}
		defer func() { verifhook.Console = nil }()
		r.Res = w.Call(args, mainFn)
		r.EndAt = log.Elapsed()
		r.EndSeq = log.Add("tool", "exit %d", r.Res.Exit)
		for _, s := range sessions {
			s.Teardown()
			c.Count("sched:split_replies", s.Splits)
			c.Count("sched:delayed_replies", s.Delays)
		}
	})
	host.Run("") // pull what scp delivered last
	r.Transcr, r.FaultSeq, r.FaultK, r.Fired = dev.Transcr, dev.FaultSeq, dev.FaultK, dev.Fired
	if r.Fired == nil {
		r.Fired = map[string]int{}
	}
	r.Sessions = len(sessions)
	r.Log = log.Copy()
	r.EvHash = log.Hash()
	r.Files = world.Snapshot(w.Dir)
	delete(r.Files, "stubbin/scp")
	if data, ok := r.Files["status/"+w.DevName]; ok {
		var st Status
		if jsonUnmarshal([]byte(data), &st) == nil {
			r.Status = &st
		}
	}
	r.History = r.Files["history/"+w.DevName]
	suffix := ".drc"
	if o.Compare {
		suffix = ".compare"
	}
	r.RunLog = r.Files[filepath.Join("policies", w.Policy, "log", w.DevName+suffix)]
	for k, v := range r.Files {
		r.Files[k] = strings.ReplaceAll(v, w.Dir, "BASEDIR")
	}
	r.Res.Stdout = strings.ReplaceAll(r.Res.Stdout, w.Dir, "BASEDIR")
	r.Res.Stderr = strings.ReplaceAll(r.Res.Stderr, w.Dir, "BASEDIR")
	c.Res.SimSeconds += r.EndAt.Seconds()
	c.EventHash(r.EvHash)
	dumpLog(r.EvHash, r.Log)
	return r
}

// linuxSaved: after a successful approve with changes the startup files hold
// the target (C09 converse clause).
func linuxSaved(r *LiveResult) string {
	h := r.LDev.Host
	routesChanged, rulesChanged := false, false
	for _, rec := range r.Transcr {
		if rec.Class == "change" && strings.HasPrefix(rec.Line, "ip route ") {
			routesChanged = true
		}
		if rec.Class == "change" && strings.HasPrefix(rec.Line, "/etc/network/packet-filter") {
			rulesChanged = true
		}
	}
	if routesChanged {
		f, ok := h.Files["/etc/network/routing"]
		if !ok {
			return "routes were changed but the startup routing file was not written"
		}
		var l []string
		for _, line := range strings.Split(f, "\n") {
			if rest, ok := strings.CutPrefix(line, "ip route add "); ok {
				w := strings.Fields(rest)
				if len(w) >= 3 {
					d := strings.TrimSuffix(w[0], "/32")
					if d == "0.0.0.0/0" {
						d = "default"
					}
					l = append(l, d+" via "+w[2])
				}
			}
		}
		sort.Strings(l)
		if strings.Join(l, ";") != strings.Join(h.StaticRoutes(), ";") {
			return fmt.Sprintf("startup routing file %v differs from the active static routes %v", l, h.StaticRoutes())
		}
	}
	if rulesChanged {
		f, ok := h.Files["/etc/network/packet-filter"]
		if !ok {
			return "iptables were changed but the startup packet-filter file is missing"
		}
		rs, err := linuxdev.ParseRestore(f)
		if err != nil {
			return "startup packet-filter file is not loadable: " + err.Error()
		}
		if strings.Join(rs.Canon(), "\n") != strings.Join(h.Rules.Canon(), "\n") {
			return "startup packet-filter file differs from the active ruleset"
		}
	}
	return ""
}

// ---- C05 ------------------------------------------------------------------------

func c05Run(c *Ctx, tp *tape.Tape, _ map[string]any) *Failure {
	cs := GenLinuxCase(tp)
	fail := func(key, msg string, extra map[string]any) *Failure {
		in := cs.Input()
		for k, v := range extra {
			in[k] = v
		}
		return &Failure{Key: "Linux|" + key, Msg: msg, Input: in}
	}
	// Plan mode first: is the pair accepted, is there a difference?
	p := c.PlanCompare("Linux", cs.DeviceText(), cs.Files)
	if p.Panic != "" {
		return fail("tool-panic|"+panicFunc(p.Panic), firstLine(p.Panic), nil)
	}
	if p.Exit != 0 {
		c.Count("not_accepted", 1)
		c.Count("not_accepted:"+firstWords(errorLine(p.Stderr), 4), 1)
		return nil
	}
	wantR := wantRoutes(cs.BRoutes)
	wantRules := strings.Join(cs.BRules.Canon(), "\n")
	equalBefore := strings.Join(cs.A.StaticRoutes(), ";") == strings.Join(wantR, ";") &&
		strings.Join(cs.A.Rules.Canon(), "\n") == wantRules
	if strings.TrimSpace(p.Stdout) == "" {
		c.Count("plan_unchanged", 1)
		if !equalBefore {
			d := "routes"
			if strings.Join(cs.A.StaticRoutes(), ";") == strings.Join(wantR, ";") {
				d = "iptables: " + firstDiff(cs.A.Rules.Canon(), cs.BRules.Canon())
			}
			return fail("unchanged-but-different|"+firstWords(d, 1), "tool reports no change but the device differs from the target: "+d, nil)
		}
	} else {
		c.NonTrivial(cs.DeviceText(), cs.Files["router"])
	}
	// Live approve.
	o := DefaultLiveOpts(tp)
	o.Compare = false
	host := cs.A.Clone()
	r := c.LiveLinux(cs, host, o)
	c.Sample(map[string]any{"ops": cs.Ops, "plan": strings.Split(strings.TrimSpace(p.Stdout), "\n")[0],
		"commands": len(r.Transcr), "exit": r.Res.Exit})
	if r.Trouble != "" || r.Res.Panic != "" {
		return fail("live-trouble", r.Trouble+firstLine(r.Res.Panic), nil)
	}
	if r.Res.Exit != 0 && cs.DupDst {
		// The kernel refuses a second route to the same destination; the
		// tool stops and says so.
		c.Count("dup_dst_refused", 1)
		return nil
	}
	if r.Res.Exit != 0 {
		e := errorLine(r.Res.Stderr + "\n" + r.RunLog)
		return fail("approve-fails|"+errorClass(e), "approve of an accepted pair fails: "+e,
			map[string]any{"log": tail(r.Log, 40)})
	}
	for _, rec := range r.Transcr {
		if rec.Reject != "" {
			return fail("command-rejected|"+firstWords(rec.Line, 3), fmt.Sprintf("%q: %s", rec.Line, rec.Reject), nil)
		}
	}
	if got := host.StaticRoutes(); strings.Join(got, ";") != strings.Join(wantR, ";") {
		return fail("state-differs|routes", fmt.Sprintf("static routes after approve %v, target %v", got, wantR),
			map[string]any{"log": tail(r.Log, 40)})
	}
	if got := strings.Join(host.Rules.Canon(), "\n"); got != wantRules {
		return fail("state-differs|iptables", "ruleset after approve differs from target: "+firstDiff(host.Rules.Canon(), cs.BRules.Canon()), nil)
	}
	if msg := linuxSaved(r); msg != "" && !equalBefore {
		return fail("startup-files", msg, nil)
	}
	// Round trip: what the device now prints (kernel spelling) against the target.
	after := &LinuxCase{A: host, Spell: tp.Next(512), Files: cs.Files}
	host.SetSpell(after.Spell)
	p2 := c.PlanCompare("Linux", after.DeviceText(), cs.Files)
	if p2.Exit != 0 || p2.Panic != "" {
		return fail("recompare-rejected", "second compare fails: "+errorLine(p2.Stderr)+firstLine(p2.Panic),
			map[string]any{"device_after": strings.Split(after.DeviceText(), "\n")})
	}
	if strings.TrimSpace(p2.Stdout) != "" {
		return fail("recompare-nonempty|"+lxDiffClass(p2.Stdout), "second compare (kernel spelling) still reports: "+firstLine(p2.Stdout),
			map[string]any{"device_after": strings.Split(after.DeviceText(), "\n"), "spell_after": after.Spell})
	}
	return nil
}

func lxDiffClass(out string) string {
	l := firstLine(out)
	if strings.HasPrefix(l, "ip route") {
		return "routes"
	}
	// iptables differs at filter:c1:RULES:0:--dport:[..]
	f := strings.Split(l, ":")
	if len(f) >= 5 {
		return strings.Join(f[2:len(f)-1], ":")
	}
	return firstWords(l, 4)
}

func firstDiff(a, b []string) string {
	for i := 0; i < len(a) || i < len(b); i++ {
		x, y := "", ""
		if i < len(a) {
			x = a[i]
		}
		if i < len(b) {
			y = b[i]
		}
		if x != y {
			return fmt.Sprintf("device %q vs target %q", x, y)
		}
	}
	return ""
}

var _ = cisco.Fault{}

func init() { Registry["C05"] = c05Run }
