package prop

import (
	"fmt"
	"html"
	"net/url"
	"sort"
	"strings"

	"verif/sim/cisco"
	"verif/sim/tape"
)

const secretAlphabet = "abcdefghijkmnopqrstuvwxyzABCDEFGHJKLMNPQRSTUVWXYZ23456789@&=+%/#?'\"<>"

func genSecret(tp *tape.Tape, prefix string) string {
	var b strings.Builder
	b.WriteString(prefix)
	for i := 0; i < 14; i++ {
		b.WriteByte(secretAlphabet[tp.Next(len(secretAlphabet))])
	}
	// make sure at least two characters need escaping
	b.WriteString("&=")
	return b.String()
}

// secretForms lists the spellings under which a secret must not appear.
func secretForms(s string) []string {
	forms := []string{s, url.QueryEscape(s), url.PathEscape(s), html.EscapeString(s)}
	sort.Strings(forms)
	var uniq []string
	for i, f := range forms {
		if i == 0 || f != forms[i-1] {
			uniq = append(uniq, f)
		}
	}
	return uniq
}

// scanSecrets looks into every sink; files lists basedir content.
func scanSecrets(secrets map[string]string, files map[string]string, stdout, stderr string) (sink, kind string) {
	sinks := map[string]string{"stdout": stdout, "stderr": stderr}
	for name, content := range files {
		if name == "credentials" || strings.HasPrefix(name, "tmp/") {
			continue
		}
		sinks[name] = content
	}
	names := make([]string, 0, len(sinks))
	for n := range sinks {
		names = append(names, n)
	}
	sort.Strings(names)
	kinds := make([]string, 0, len(secrets))
	for k := range secrets {
		kinds = append(kinds, k)
	}
	sort.Strings(kinds)
	for _, n := range names {
		for _, k := range kinds {
			for _, f := range secretForms(secrets[k]) {
				if strings.Contains(sinks[n], f) {
					return n, k
				}
			}
		}
	}
	return "", ""
}

func sinkClass(name string) string {
	switch {
	case name == "stdout" || name == "stderr":
		return name
	case strings.HasPrefix(name, "history/"):
		return "history"
	case strings.HasPrefix(name, "status/"):
		return "status"
	case strings.Contains(name, "/log/"):
		if i := strings.LastIndex(name, "."); i > 0 {
			ext := name[i:]
			if len(ext) > 1 && ext[1] >= '0' && ext[1] <= '9' {
				return "rotated-log"
			}
			return ext
		}
	}
	return name
}

func c17Cisco(c *Ctx, tp *tape.Tape, extra map[string]any) *Failure {
	kind := "ASA"
	if tp.Next(2) == 1 {
		kind = "IOS"
	}
	cs := GenCiscoCase(tp, kind)
	o := DefaultLiveOpts(tp)
	o.Compare = tp.Next(3) == 0
	o.Password = genSecret(tp, "PW")
	secrets := map[string]string{"password": o.Password}
	mkFail := func(key, msg string, r *LiveResult, f *cisco.Fault) *Failure {
		in := map[string]any{"opts": fmt.Sprintf("%+v", o), "stderr": strings.Split(r.Res.Stderr, "\n")}
		ex := map[string]any{"fault": map[string]any{"at": 0, "kind": "none", "arg": 0}}
		if f != nil {
			ex["fault"] = map[string]any{"at": f.At, "kind": f.Kind, "arg": f.Arg}
		}
		return &Failure{Key: key, Msg: msg, Input: in, Extra: ex, Log: tail(r.Log, 60)}
	}
	judge := func(r *LiveResult, f *cisco.Fault) (string, string) {
		if r.Trouble != "" {
			return kind + "|no-exit", r.Trouble
		}
		sink, sk := scanSecrets(secrets, r.Files, r.Res.Stdout, r.Res.Stderr)
		if sink == "" {
			return "", ""
		}
		trig := "success"
		if f != nil && f.Kind != "none" {
			phase := "?"
			for _, rec := range r.Dev.Transcr {
				if rec.Fault != "" {
					phase = rec.Class
					break
				}
			}
			trig = f.Kind + "@" + phase
		}
		return fmt.Sprintf("%s|%s|%s|%s", kind, sk, sinkClass(sink), trig),
			fmt.Sprintf("%s found in %s", sk, sink)
	}
	if extra != nil {
		fm, _ := extra["fault"].(map[string]any)
		f := cisco.Fault{At: toInt(fm["at"]), Kind: fmt.Sprint(fm["kind"]), Arg: toInt(fm["arg"])}
		oo := o
		if f.Kind != "none" {
			oo.Faults = []cisco.Fault{f}
		}
		r := c.LiveCisco(cs, oo, tape.Replay(nil))
		if k, m := judge(r, &f); k != "" {
			return mkFail(k, m, r, &f)
		}
		return nil
	}
	base := c.LiveCisco(cs, o, tape.Replay(nil))
	if k, m := judge(base, nil); k != "" && !c.NoteKnown(k) {
		return mkFail(k, m, base, nil)
	}
	c.NonTrivial(o.Password, kind, o.Front)
	c.Sample(map[string]any{"kind": kind, "front": o.Front, "password": o.Password,
		"files_scanned": len(base.Files), "dialogue_lines": base.Dev.K()})
	for pi, rec := range base.Dev.Transcr {
		kinds := faultKindsFor(rec.Class, rec.Line)
		if rec.Class == "login" {
			kinds = append(kinds, "enable-reject")
		}
		for ki, fk := range kinds {
			if c.Quick && rec.Class != "login" && (pi+ki)%4 != len(tp.Rec)%4 {
				continue
			}
			f := cisco.Fault{At: rec.K, Kind: fk}
			if fk == "slow" {
				f.Arg = o.Timeout / 2
			}
			oo := o
			oo.Faults = []cisco.Fault{f}
			r := c.LiveCisco(cs, oo, tape.Replay(nil))
			c.Res.Evaluations++
			c.Count("faults_fired:"+fk, r.Dev.FaultsFired[fk])
			if k, m := judge(r, &f); k != "" && !c.NoteKnown(k) {
				return mkFail(k, m, r, &f)
			}
			if c.TimeUp() {
				return nil
			}
		}
	}
	return nil
}

func init() { Registry["C17"] = c17Cisco }
