// Package panosdev is the executable model of a PAN-OS firewall's XML API:
// a generic XML configuration tree with candidate and running copy, the
// xpath subset the tool uses (get / set / edit / delete / move), keygen, HA
// state, partial commit with a job that goes PEND* -> OK | FAIL, and the
// referential rules PAN-OS enforces.  Written from the PAN-OS XML API
// documentation, not from the tool's parser.
package panosdev

import (
	"encoding/xml"
	"fmt"
	"io"
	"net/http"
	"net/url"
	"sort"
	"strings"
	"time"

	"verif/sim/evlog"
)

// ---- generic XML tree ----------------------------------------------------------

type X struct {
	Tag  string
	Name string // value of attribute name, if any
	Text string
	Kids []*X
}

func (x *X) Clone() *X {
	n := &X{Tag: x.Tag, Name: x.Name, Text: x.Text}
	for _, k := range x.Kids {
		n.Kids = append(n.Kids, k.Clone())
	}
	return n
}

func (x *X) Kid(tag, name string) *X {
	for _, k := range x.Kids {
		if k.Tag == tag && (name == "" || k.Name == name) {
			return k
		}
	}
	return nil
}

func (x *X) Path(tags ...string) *X {
	cur := x
	for _, t := range tags {
		if cur == nil {
			return nil
		}
		cur = cur.Kid(t, "")
	}
	return cur
}

func (x *X) Members() []string {
	var l []string
	if x == nil {
		return nil
	}
	for _, k := range x.Kids {
		if k.Tag == "member" {
			l = append(l, k.Text)
		}
	}
	return l
}

func esc(s string) string {
	var b strings.Builder
	xml.EscapeText(&b, []byte(s))
	return b.String()
}

func (x *X) String() string {
	var b strings.Builder
	x.write(&b)
	return b.String()
}

func (x *X) write(b *strings.Builder) {
	b.WriteString("<" + x.Tag)
	if x.Name != "" {
		b.WriteString(` name="` + esc(x.Name) + `"`)
	}
	if len(x.Kids) == 0 && x.Text == "" {
		b.WriteString("/>")
		return
	}
	b.WriteString(">")
	b.WriteString(esc(x.Text))
	for _, k := range x.Kids {
		k.write(b)
	}
	b.WriteString("</" + x.Tag + ">")
}

// ParseXML parses a sequence of elements into the kids of a fresh node.
func ParseXML(s string) (*X, error) {
	d := xml.NewDecoder(strings.NewReader("<x>" + s + "</x>"))
	root := &X{Tag: "x"}
	stack := []*X{}
	var cur *X
	for {
		tok, err := d.Token()
		if err == io.EOF {
			break
		}
		if err != nil {
			return nil, err
		}
		switch t := tok.(type) {
		case xml.StartElement:
			n := &X{Tag: t.Name.Local}
			for _, a := range t.Attr {
				if a.Name.Local == "name" {
					n.Name = a.Value
				}
			}
			if cur == nil {
				cur = root
				stack = append(stack, root)
				continue
			}
			cur.Kids = append(cur.Kids, n)
			stack = append(stack, n)
			cur = n
		case xml.EndElement:
			stack = stack[:len(stack)-1]
			if len(stack) > 0 {
				cur = stack[len(stack)-1]
			}
		case xml.CharData:
			if cur != nil {
				if s := strings.TrimSpace(string(t)); s != "" {
					cur.Text += s
				}
			}
		}
	}
	return root, nil
}

// ---- xpath subset -----------------------------------------------------------------

type step struct {
	tag  string
	name string // [@name='..']
	text string // [text()='..']
	hasN bool
	hasT bool
}

func parseXPath(p string) ([]step, error) {
	var steps []step
	i := 0
	for i < len(p) {
		if p[i] != '/' {
			return nil, fmt.Errorf("bad xpath %q", p)
		}
		i++
		j := i
		for j < len(p) && p[j] != '/' && p[j] != '[' {
			j++
		}
		st := step{tag: p[i:j]}
		if j < len(p) && p[j] == '[' {
			e := strings.Index(p[j:], "']")
			if e < 0 {
				return nil, fmt.Errorf("bad predicate in %q", p)
			}
			pred := p[j+1 : j+e+1]
			switch {
			case strings.HasPrefix(pred, "@name='"):
				st.name, st.hasN = strings.TrimSuffix(strings.TrimPrefix(pred, "@name='"), "'"), true
			case strings.HasPrefix(pred, "text()='"):
				st.text, st.hasT = strings.TrimSuffix(strings.TrimPrefix(pred, "text()='"), "'"), true
			default:
				return nil, fmt.Errorf("unsupported predicate %q", pred)
			}
			j += e + 2
		}
		steps = append(steps, st)
		i = j
	}
	return steps, nil
}

func match(k *X, st step) bool {
	if k.Tag != st.tag {
		return false
	}
	if st.hasN && k.Name != st.name {
		return false
	}
	if st.hasT && k.Text != st.text {
		return false
	}
	return true
}

// find returns the node and its parent; create makes missing nodes.
func find(root *X, steps []step, create bool) (node, parent *X) {
	cur := root
	for _, st := range steps {
		var next *X
		for _, k := range cur.Kids {
			if match(k, st) {
				next = k
				break
			}
		}
		if next == nil {
			if !create || st.hasT {
				return nil, cur
			}
			next = &X{Tag: st.tag, Name: st.name}
			cur.Kids = append(cur.Kids, next)
		}
		parent, cur = cur, next
	}
	return cur, parent
}

func merge(dst *X, src *X) {
	for _, k := range src.Kids {
		if k.Tag == "member" {
			dup := false
			for _, e := range dst.Kids {
				if e.Tag == "member" && e.Text == k.Text {
					dup = true
				}
			}
			if !dup {
				dst.Kids = append(dst.Kids, k.Clone())
			}
			continue
		}
		if e := dst.Kid(k.Tag, k.Name); e != nil && (k.Name != "" || k.Tag != "entry") {
			if len(k.Kids) == 0 {
				e.Text = k.Text
			} else {
				merge(e, k)
			}
			continue
		}
		dst.Kids = append(dst.Kids, k.Clone())
	}
}

// ---- the node -----------------------------------------------------------------------

type Fault struct {
	At   int    `json:"at"` // request index, 1-based
	Kind string `json:"kind"`
	Arg  int    `json:"arg,omitempty"`
}

type Rec struct {
	K      int    `json:"k"`
	Seq    int    `json:"seq"`
	Class  string `json:"class"` // login, read, script, save, poll
	Req    string `json:"req"`
	Reject string `json:"reject,omitempty"`
	Fault  string `json:"fault,omitempty"`
}

type Node struct {
	Cand        *X // candidate <config>
	Running     *X
	User        string
	Password    string
	Key         string
	HA          string // "", "disabled", "active", "passive", "active-primary", "active-secondary", "garbled"
	JobPend     int    // number of PEND answers before the result
	JobFail     bool
	Log         *evlog.Log
	RedirectAPI bool // requests to /api are answered with a redirect to /api/
	Faults      []Fault
	Transcr     []Rec
	FaultSeq    int
	FaultK      int
	Fired       map[string]int
	Commits     int
	Strict      bool
	jobs        map[string]int
	k           int
	Unreach     bool // this address does not answer (backup address test)
	lastJobOK   bool
}

func NewNode(cfg *X) *Node {
	return &Node{Cand: cfg, Running: cfg.Clone(), User: "admin", Password: "secret", Key: "LUFRPT14MW5xOEo1R09KVlBZNnpnemh0VHRBOWl6TGM9bXcwM3JHUGVhRlNiY0dCR0srNERUQT09",
		Strict: true, jobs: map[string]int{}, FaultSeq: -1}
}

func (n *Node) fault(k int) *Fault {
	for i := range n.Faults {
		if n.Faults[i].At == k {
			return &n.Faults[i]
		}
	}
	return nil
}

func ok(body string) string {
	return `<response status="success">` + body + `</response>`
}

func errResp(msg string) string {
	return `<response status="error" code="12"><msg><line>` + esc(msg) + `</line></msg></response>`
}

type rt struct{ n *Node }

// Client returns an http.Client whose transport is the node.
func (n *Node) Client(timeout time.Duration) *http.Client {
	return &http.Client{Timeout: timeout, Transport: rt{n}}
}

func resp(req *http.Request, code int, body string) *http.Response {
	return &http.Response{StatusCode: code, Status: fmt.Sprintf("%d %s", code, http.StatusText(code)),
		Proto: "HTTP/1.1", ProtoMajor: 1, ProtoMinor: 1, Header: http.Header{"Content-Type": []string{"application/xml"}},
		Body: io.NopCloser(strings.NewReader(body)), Request: req, ContentLength: int64(len(body))}
}

func (t rt) RoundTrip(req *http.Request) (*http.Response, error) {
	n := t.n
	n.k++
	q := req.URL.Query()
	typ := q.Get("type")
	class := "read"
	switch {
	case typ == "keygen":
		class = "login"
	case typ == "commit":
		class = "save"
	case typ == "config" && q.Get("action") != "get":
		class = "script"
	case typ == "op" && strings.Contains(q.Get("cmd"), "<jobs>"):
		class = "poll"
	}
	shown := req.URL.Path + "?" + strings.ReplaceAll(req.URL.RawQuery, n.Key, "KEY")
	if n.Password != "" {
		shown = strings.ReplaceAll(shown, url.QueryEscape(n.Password), "PASSWORD")
	}
	rec := Rec{K: n.k, Seq: n.Log.Add("dev", "req[%s] %s", class, trunc(shown, 160)), Class: class, Req: shown}
	defer func() { n.Transcr = append(n.Transcr, rec) }()
	if n.RedirectAPI && req.URL.Path == "/api" && n.fault(n.k) == nil {
		// The web server of the device redirects /api to /api/ (query kept).
		n.Log.Add("dev", "redirect to /api/")
		r := resp(req, 308, "")
		r.Header.Set("Location", "/api/?"+req.URL.RawQuery)
		return r, nil
	}
	if n.Unreach {
		rec.Fault = "unreachable"
		return nil, fmt.Errorf("dial tcp %s: connect: no route to host", req.URL.Host)
	}
	if f := n.fault(n.k); f != nil {
		rec.Fault = f.Kind
		if n.Fired == nil {
			n.Fired = map[string]int{}
		}
		n.Fired[f.Kind]++
		if n.FaultSeq < 0 {
			n.FaultSeq, n.FaultK = n.Log.Seq(), n.k
		}
		n.Log.Add("dev", "FAULT %s at request %d", f.Kind, n.k)
		switch f.Kind {
		case "status-500":
			return resp(req, 500, "Internal Server Error (injected)"), nil
		case "status-403":
			return resp(req, 403, `<response status="error" code="403"><result><msg>Invalid credentials.</msg></result></response>`), nil
		case "transport-error":
			return nil, fmt.Errorf("EOF")
		case "client-timeout":
			<-req.Context().Done()
			return nil, req.Context().Err()
		case "malformed-body":
			return resp(req, 200, `<response status="success"><result><devices><entry name=`), nil
		case "status-error":
			return resp(req, 200, errResp("Operation failed (injected)")), nil
		case "wrong-root":
			return resp(req, 200, `<html><body>Please log in</body></html>`), nil
		case "empty-body":
			return resp(req, 200, ""), nil
		}
	}
	body, rej := n.handle(q)
	rec.Reject = rej
	if rej != "" {
		n.Log.Add("dev", "REJECT %s", rej)
	}
	return resp(req, 200, body), nil
}

func trunc(s string, n int) string {
	if len(s) > n {
		return s[:n] + "…"
	}
	return s
}

func (n *Node) handle(q url.Values) (body, reject string) {
	switch q.Get("type") {
	case "keygen":
		if q.Get("user") != n.User || q.Get("password") != n.Password {
			return `<response status="error" code="403"><result><msg>Invalid credentials.</msg></result></response>`, ""
		}
		return ok("<result><key>" + n.Key + "</key></result>"), ""
	}
	if q.Get("key") != n.Key {
		return `<response status="error" code="403"><result><msg>Invalid credentials.</msg></result></response>`, ""
	}
	switch q.Get("type") {
	case "op":
		cmd := q.Get("cmd")
		switch {
		case strings.Contains(cmd, "<high-availability>"):
			return n.haState(), ""
		case strings.Contains(cmd, "<jobs>"):
			id := between(cmd, "<id>", "</id>")
			left, known := n.jobs[id]
			if !known {
				return errResp("job " + id + " not found"), ""
			}
			if left > 0 {
				n.jobs[id] = left - 1
				return ok("<result><job><id>" + id + "</id><status>ACT</status><result>PEND</result></job></result>"), ""
			}
			if n.JobFail {
				n.lastJobOK = false
				return ok("<result><job><id>" + id + "</id><status>FIN</status><result>FAIL</result><details><line>Validation Error</line></details></job></result>"), ""
			}
			if !n.lastJobOK {
				n.Running = n.Cand.Clone()
				n.Commits++
				n.lastJobOK = true
				n.Log.Add("dev", "commit job %s finished OK", id)
			}
			return ok("<result><job><id>" + id + "</id><status>FIN</status><result>OK</result></job></result>"), ""
		}
		return errResp("unknown op command"), ""
	case "commit":
		if n.Cand.String() == n.Running.String() {
			return `<response status="success" code="13"><msg>There are no changes to commit.</msg></response>`, ""
		}
		id := fmt.Sprintf("%d", 100+len(n.jobs))
		n.jobs[id] = n.JobPend
		n.lastJobOK = false
		n.Log.Add("dev", "commit job %s enqueued", id)
		return `<response status="success" code="19"><result><msg><line>Commit job enqueued with jobid ` + id + `</line></msg><job>` + id + `</job></result></response>`, ""
	case "config":
		return n.config(q)
	}
	return errResp("unknown request type"), ""
}

func between(s, a, b string) string {
	_, r, ok := strings.Cut(s, a)
	if !ok {
		return ""
	}
	v, _, _ := strings.Cut(r, b)
	return v
}

func (n *Node) haState() string {
	switch n.HA {
	case "", "disabled":
		return ok("<result><enabled>no</enabled></result>")
	case "garbled":
		return ok("<result><enabled>yes</enabled><group><mode>Active-Passive</mode></group></result>")
	case "active", "passive":
		return ok("<result><enabled>yes</enabled><group><mode>Active-Passive</mode><local-info><state>" + n.HA + "</state></local-info></group></result>")
	}
	return ok("<result><enabled>yes</enabled><group><mode>Active-Active</mode><local-info><state>" + n.HA + "</state></local-info></group></result>")
}

func (n *Node) config(q url.Values) (string, string) {
	action := q.Get("action")
	steps, err := parseXPath(q.Get("xpath"))
	if err != nil || len(steps) == 0 || steps[0].tag != "config" {
		return errResp("bad xpath"), "bad xpath " + q.Get("xpath")
	}
	steps = steps[1:]
	switch action {
	case "get":
		node, _ := find(n.Cand, steps, false)
		if node == nil {
			return ok("<result/>"), ""
		}
		return ok("<result>" + node.String() + "</result>"), ""
	}
	before := n.Cand.Clone()
	dangBefore := dangling(n.Cand)
	rej := n.apply(action, steps, q)
	if rej == "" && n.Strict {
		// Referential integrity: the command must not create a dangling reference.
		after := dangling(n.Cand)
		for d := range after {
			if !dangBefore[d] {
				rej = d
				break
			}
		}
	}
	if rej != "" {
		n.Cand = before
		return errResp(rej), rej
	}
	return `<response status="success" code="20"><msg>command succeeded</msg></response>`, ""
}

func (n *Node) apply(action string, steps []step, q url.Values) string {
	switch action {
	case "set":
		el, err := ParseXML(q.Get("element"))
		if err != nil {
			return "element is not well-formed: " + err.Error()
		}
		node, _ := find(n.Cand, steps, true)
		if node == nil {
			return "xpath does not exist"
		}
		merge(node, el)
	case "edit":
		el, err := ParseXML(q.Get("element"))
		if err != nil || len(el.Kids) != 1 {
			return "edit needs exactly one element"
		}
		node, parent := find(n.Cand, steps, false)
		if node == nil {
			return "edit: object does not exist: " + q.Get("xpath")
		}
		nw := el.Kids[0]
		if nw.Tag != node.Tag || nw.Name != node.Name {
			return fmt.Sprintf("edit: element <%s name=%q> does not match the xpath node <%s name=%q>", nw.Tag, nw.Name, node.Tag, node.Name)
		}
		for i, k := range parent.Kids {
			if k == node {
				parent.Kids[i] = nw
			}
		}
	case "delete":
		node, parent := find(n.Cand, steps, false)
		if node == nil {
			return "delete: object does not exist: " + q.Get("xpath")
		}
		for i, k := range parent.Kids {
			if k == node {
				parent.Kids = append(parent.Kids[:i], parent.Kids[i+1:]...)
				break
			}
		}
	case "move":
		node, parent := find(n.Cand, steps, false)
		if node == nil {
			return "move: object does not exist"
		}
		where, dst := q.Get("where"), q.Get("dst")
		var rest []*X
		for _, k := range parent.Kids {
			if k != node {
				rest = append(rest, k)
			}
		}
		switch where {
		case "top":
			parent.Kids = append([]*X{node}, rest...)
		case "bottom":
			parent.Kids = append(rest, node)
		case "before", "after":
			idx := -1
			for i, k := range rest {
				if k.Tag == node.Tag && k.Name == dst {
					idx = i
				}
			}
			if idx < 0 {
				return "move: destination rule " + dst + " does not exist"
			}
			if where == "after" {
				idx++
			}
			parent.Kids = append(rest[:idx:idx], append([]*X{node}, rest[idx:]...)...)
		default:
			return "move: bad where"
		}
	default:
		return "unknown action " + action
	}
	return ""
}

// ---- semantics ----------------------------------------------------------------------

var builtinSvc = map[string]bool{"any": true, "application-default": true, "service-http": true, "service-https": true}

func vsysList(cfg *X) []*X {
	var l []*X
	for _, d := range cfg.Path("devices").KidsOf("entry") {
		l = append(l, d.Path("vsys").KidsOf("entry")...)
	}
	return l
}

func (x *X) KidsOf(tag string) []*X {
	if x == nil {
		return nil
	}
	var l []*X
	for _, k := range x.Kids {
		if k.Tag == tag {
			l = append(l, k)
		}
	}
	return l
}

func names(x *X) map[string]*X {
	m := map[string]*X{}
	for _, e := range x.KidsOf("entry") {
		m[e.Name] = e
	}
	return m
}

// dangling lists references to objects that do not exist.
func dangling(cfg *X) map[string]bool {
	res := map[string]bool{}
	shared := cfg.Path("shared")
	sAddr, sGrp, sSvc, sSg := names(shared.Path("address")), names(shared.Path("address-group")), names(shared.Path("service")), names(shared.Path("service-group"))
	for _, v := range vsysList(cfg) {
		addr, grp, svc, sg := names(v.Path("address")), names(v.Path("address-group")), names(v.Path("service")), names(v.Path("service-group"))
		isAddr := func(m string) bool {
			return m == "any" || addr[m] != nil || grp[m] != nil || sAddr[m] != nil || sGrp[m] != nil
		}
		isSvc := func(m string) bool {
			return builtinSvc[m] || svc[m] != nil || sg[m] != nil || sSvc[m] != nil || sSg[m] != nil
		}
		for _, r := range v.Path("rulebase", "security", "rules").KidsOf("entry") {
			for _, f := range []string{"source", "destination"} {
				for _, m := range r.Kid(f, "").Members() {
					if !isAddr(m) {
						res[fmt.Sprintf("rule %s of %s: %s '%s' is not a valid reference", r.Name, v.Name, f, m)] = true
					}
				}
			}
			for _, m := range r.Kid("service", "").Members() {
				if !isSvc(m) {
					res[fmt.Sprintf("rule %s of %s: service '%s' is not a valid reference", r.Name, v.Name, m)] = true
				}
			}
		}
		for _, g := range v.Path("address-group").KidsOf("entry") {
			for _, m := range g.Kid("static", "").Members() {
				if !isAddr(m) || m == "any" {
					res[fmt.Sprintf("address-group %s of %s: member '%s' is not a valid reference", g.Name, v.Name, m)] = true
				}
			}
		}
		for _, g := range v.Path("service-group").KidsOf("entry") {
			for _, m := range g.Kid("members", "").Members() {
				if !isSvc(m) {
					res[fmt.Sprintf("service-group %s of %s: member '%s' is not a valid reference", g.Name, v.Name, m)] = true
				}
			}
		}
	}
	return res
}

// CanonVsys renders the security rulebase of one vsys with every object
// reference replaced by the object's content (names erased, sets sorted).
func CanonVsys(cfg *X, vsys string) []string {
	shared := cfg.Path("shared")
	var v *X
	for _, x := range vsysList(cfg) {
		if x.Name == vsys {
			v = x
		}
	}
	if v == nil {
		return []string{"<vsys missing>"}
	}
	addr, grp, svc, sg := names(v.Path("address")), names(v.Path("address-group")), names(v.Path("service")), names(v.Path("service-group"))
	sAddr, sGrp, sSvc, sSg := names(shared.Path("address")), names(shared.Path("address-group")), names(shared.Path("service")), names(shared.Path("service-group"))
	body := func(e *X) string {
		var l []string
		for _, k := range e.Kids {
			l = append(l, k.String())
		}
		sort.Strings(l)
		return strings.Join(l, "")
	}
	var expAddr func(m string, depth int) []string
	expAddr = func(m string, depth int) []string {
		if depth > 4 {
			return []string{"<deep>"}
		}
		if a := addr[m]; a != nil {
			return []string{body(a)}
		}
		if g := grp[m]; g != nil {
			var l []string
			for _, x := range g.Kid("static", "").Members() {
				l = append(l, expAddr(x, depth+1)...)
			}
			return l
		}
		if a := sAddr[m]; a != nil {
			return []string{"shared:" + body(a)}
		}
		if g := sGrp[m]; g != nil {
			return []string{"shared-group:" + m}
		}
		return []string{"name:" + m}
	}
	var expSvc func(m string, depth int) []string
	expSvc = func(m string, depth int) []string {
		if depth > 4 {
			return []string{"<deep>"}
		}
		if s := svc[m]; s != nil {
			return []string{body(s)}
		}
		if g := sg[m]; g != nil {
			var l []string
			for _, x := range g.Kid("members", "").Members() {
				l = append(l, expSvc(x, depth+1)...)
			}
			return l
		}
		if s := sSvc[m]; s != nil {
			return []string{"shared:" + body(s)}
		}
		if sSg[m] != nil {
			return []string{"shared-group:" + m}
		}
		return []string{"name:" + m}
	}
	set := func(l []string) string {
		sort.Strings(l)
		var u []string
		for i, x := range l {
			if i == 0 || x != l[i-1] {
				u = append(u, x)
			}
		}
		return "{" + strings.Join(u, ",") + "}"
	}
	var out []string
	for i, r := range v.Path("rulebase", "security", "rules").KidsOf("entry") {
		var parts []string
		for _, k := range r.Kids {
			switch k.Tag {
			case "source", "destination":
				var l []string
				for _, m := range k.Members() {
					l = append(l, expAddr(m, 0)...)
				}
				parts = append(parts, k.Tag+"="+set(l))
			case "service":
				var l []string
				for _, m := range k.Members() {
					l = append(l, expSvc(m, 0)...)
				}
				parts = append(parts, "service="+set(l))
			case "from", "to", "application":
				parts = append(parts, k.Tag+"="+set(k.Members()))
			default:
				// Attributes whose value "any" is the default are not shown.
				if (k.Tag == "source-user" || k.Tag == "category" || k.Tag == "source-hip" || k.Tag == "destination-hip") &&
					len(k.Members()) == 1 && k.Members()[0] == "any" {
					continue
				}
				parts = append(parts, k.String())
			}
		}
		sort.Strings(parts)
		out = append(out, fmt.Sprintf("%03d %s", i, strings.Join(parts, " ")))
	}
	return out
}

// Outside renders everything that is not inside one of the given vsys (C07).
func Outside(cfg *X, targeted map[string]bool) string {
	c := cfg.Clone()
	for _, d := range c.Path("devices").KidsOf("entry") {
		vs := d.Path("vsys")
		if vs == nil {
			continue
		}
		var keep []*X
		for _, v := range vs.Kids {
			if v.Tag == "entry" && targeted[v.Name] {
				continue
			}
			keep = append(keep, v)
		}
		vs.Kids = keep
	}
	return c.String()
}
