# BASH_ENV tracer of the simulator (C19): every simple command of the traced
# script becomes a scheduling and crash point.  The script itself is not edited.
# $VERIF_REQ and $VERIF_REPLY are FIFOs owned by the orchestrator.
if [ -n "$VERIF_REQ" ] && [ -z "$__VERIF_TRACING" ]; then
    __verif_step() {
        local cmd=$BASH_COMMAND
        case "$cmd" in
            __verif_step*|"trap "*) return 0 ;;
        esac
        printf '%s|%s\n' "$BASHPID" "${cmd//$'\n'/ }" > "$VERIF_REQ"
        local __a
        IFS= read -r __a < "$VERIF_REPLY"
        return 0
    }
    set -T
    trap '__verif_step' DEBUG
fi
