// Package sshx is the simulated interactive (ssh/pty) transport: a pair of
// io.Pipes behind goexpect's SpawnGeneric.  The device side decides what is
// delivered, when and in which chunks; between chunks it waits for quiescence
// of the tool, so the interleaving never depends on the Go scheduler.
package sshx

import (
	"io"
	"strings"
	"sync"
	"sync/atomic"
	"time"

	expect "github.com/tailscale/goexpect"
	"verif/sim/evlog"
	"verif/sim/tape"
)

type Session struct {
	devR  *io.PipeReader // device reads what the tool sent
	toolW *io.PipeWriter
	toolR *io.PipeReader // tool reads what the device sent
	devW  *io.PipeWriter

	done     chan struct{}
	doneOnce sync.Once
	closed   atomic.Bool
	rbuf     []byte

	Sched   *tape.Tape // chunking and latency choices; nil = none
	Log     *evlog.Log
	Quiesce func() // synctest.Wait inside a bubble
	// OnIdle, if set, is told when the device side starts (true) and stops
	// (false) waiting for input of the tool (process mode).
	OnIdle func(idle bool)
	// Swarm knobs.
	ChunkOn   bool
	LatencyOn bool
	MaxDelay  time.Duration

	Lines     int // number of input lines read so far
	BytesSent int
	Chunks    int
	Splits    int // replies delivered in more than one chunk
	Delays    int // replies delayed
}

func New(log *evlog.Log, sched *tape.Tape, quiesce func()) *Session {
	s := &Session{Log: log, Sched: sched, Quiesce: quiesce,
		done: make(chan struct{})}
	s.devR, s.toolW = io.Pipe()
	s.toolR, s.devW = io.Pipe()
	return s
}

// Spawn gives the tool its end of the session.
func (s *Session) Spawn(timeout time.Duration) (*expect.GExpect, error) {
	e, _, err := expect.SpawnGeneric(&expect.GenOptions{
		In:  s.toolW,
		Out: s.toolR,
		Wait: func() error {
			<-s.done
			return nil
		},
		Close: func() error { s.Teardown(); return nil },
		Check: func() bool { return !s.closed.Load() },
	}, timeout, expect.PartialMatch(true))
	return e, err
}

// ReadLine blocks until the tool has sent a complete line.
func (s *Session) ReadLine() (string, bool) {
	for {
		if i := strings.IndexByte(string(s.rbuf), '\n'); i >= 0 {
			line := string(s.rbuf[:i])
			s.rbuf = s.rbuf[i+1:]
			s.Lines++
			return strings.TrimSuffix(line, "\r"), true
		}
		buf := make([]byte, 65536)
		if s.OnIdle != nil {
			s.OnIdle(true)
		}
		n, err := s.devR.Read(buf)
		if s.OnIdle != nil {
			s.OnIdle(false)
		}
		s.rbuf = append(s.rbuf, buf[:n]...)
		if err != nil {
			return "", false
		}
		// The device reacts only once the tool has come to rest after its
		// write (normally: waiting in Expect).  Otherwise "the device closes
		// the connection" races with "the tool enters Expect", and whether the
		// tool notices at once or at its next poll tick would be decided by
		// the Go scheduler instead of the tape.
		s.wait()
	}
}

// IsClosed reports whether either side has closed the session.
func (s *Session) IsClosed() bool { return s.closed.Load() }

// Pending reports whether a further complete input line is already buffered.
func (s *Session) Pending() bool {
	return strings.IndexByte(string(s.rbuf), '\n') >= 0
}

func (s *Session) wait() {
	if s.Quiesce != nil {
		s.Quiesce()
	}
}

// Send delivers text to the tool, possibly split into chunks with a
// quiescence point after every chunk.  LF is converted to CRLF.
func (s *Session) Send(text string) {
	if text == "" || s.closed.Load() {
		return
	}
	text = strings.ReplaceAll(text, "\n", "\r\n")
	if s.LatencyOn && s.Sched != nil {
		if k := s.Sched.Next(8); k >= 6 && s.MaxDelay > 0 {
			d := time.Duration(1+s.Sched.Next(int(s.MaxDelay/time.Millisecond))) * time.Millisecond
			time.Sleep(d)
			s.Delays++
		}
	}
	var cuts []int
	if s.ChunkOn && s.Sched != nil && len(text) > 1 {
		n := s.Sched.Next(4) // number of cuts; 0 = one chunk
		for i := 0; i < n; i++ {
			cuts = append(cuts, 1+s.Sched.Next(len(text)-1))
		}
		if n > 0 {
			s.Splits++
		}
	}
	s.SendChunks(text, cuts)
}

func (s *Session) SendChunks(text string, cuts []int) {
	// sort cuts (tiny)
	for i := range cuts {
		for j := i + 1; j < len(cuts); j++ {
			if cuts[j] < cuts[i] {
				cuts[i], cuts[j] = cuts[j], cuts[i]
			}
		}
	}
	prev := 0
	for _, c := range append(cuts, len(text)) {
		if c <= prev || c > len(text) {
			continue
		}
		if s.closed.Load() {
			return
		}
		if _, err := s.devW.Write([]byte(text[prev:c])); err != nil {
			return
		}
		s.BytesSent += c - prev
		s.Chunks++
		prev = c
		s.wait()
	}
}

// SendRaw delivers bytes unchanged in one chunk.
func (s *Session) SendRaw(text string) {
	if text == "" || s.closed.Load() {
		return
	}
	if _, err := s.devW.Write([]byte(text)); err != nil {
		return
	}
	s.BytesSent += len(text)
	s.Chunks++
	s.wait()
}

// CloseFromDevice drops the connection.
func (s *Session) CloseFromDevice() {
	s.closed.Store(true)
	s.devW.Close()
	s.devR.Close()
	s.wait()
}

func (s *Session) Closed() bool { return s.closed.Load() }

// Teardown ends the session from the harness side.
func (s *Session) Teardown() {
	s.closed.Store(true)
	s.devW.Close()
	s.devR.Close()
	s.toolW.Close()
	s.toolR.Close()
	s.doneOnce.Do(func() { close(s.done) })
}
