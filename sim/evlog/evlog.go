// Package evlog is the single event log of one simulated run.
// Logging never draws from a tape and never reads a real clock: inside a
// synctest bubble time.Now is the simulated clock.
package evlog

import (
	"crypto/sha256"
	"encoding/hex"
	"fmt"
	"strings"
	"sync"
	"time"
)

type Log struct {
	mu    sync.Mutex
	start time.Time
	Lines []string
	Clock func() time.Time
}

func New() *Log {
	return &Log{}
}

// Start (re)sets the time origin; call inside the bubble.
func (l *Log) Start() {
	l.mu.Lock()
	defer l.mu.Unlock()
	l.start = l.now()
}

func (l *Log) now() time.Time {
	if l.Clock != nil {
		return l.Clock()
	}
	return time.Now()
}

func (l *Log) Add(actor, format string, args ...any) int {
	l.mu.Lock()
	defer l.mu.Unlock()
	msg := fmt.Sprintf(format, args...)
	var d time.Duration
	if !l.start.IsZero() {
		d = l.now().Sub(l.start)
	}
	seq := len(l.Lines)
	l.Lines = append(l.Lines,
		fmt.Sprintf("%04d t=%.3fs %s %s", seq, d.Seconds(), actor, msg))
	return seq
}

func (l *Log) Seq() int {
	l.mu.Lock()
	defer l.mu.Unlock()
	return len(l.Lines)
}

func (l *Log) Elapsed() time.Duration {
	l.mu.Lock()
	defer l.mu.Unlock()
	if l.start.IsZero() {
		return 0
	}
	return l.now().Sub(l.start)
}

func (l *Log) Hash() string {
	l.mu.Lock()
	defer l.mu.Unlock()
	h := sha256.Sum256([]byte(strings.Join(l.Lines, "\n")))
	return hex.EncodeToString(h[:8])
}

func (l *Log) Copy() []string {
	l.mu.Lock()
	defer l.mu.Unlock()
	return append([]string(nil), l.Lines...)
}
