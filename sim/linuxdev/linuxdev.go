// Package linuxdev is the executable model of a Linux router/firewall: kernel
// routing table, iptables ruleset as the kernel stores and prints it
// (iptables-save spelling), a tiny file system for the startup files that
// arrive through scp, and the shell dialogue the tool speaks.
//
// The kernel spelling rules are limited to the variants the property names;
// each one cites where it comes from (iptables-save(8) output conventions and
// the examples in go/testdata/linux_*.t).
package linuxdev

import (
	"fmt"
	"os"
	"path/filepath"
	"sort"
	"strconv"
	"strings"
	"time"

	"verif/sim/cisco"
	"verif/sim/evlog"
	"verif/sim/sshx"
)

// ---- iptables -----------------------------------------------------------------

// Opt is one match / target option of a rule in canonical (Netspoc) spelling.
type Opt struct {
	Key string // "-s", "-p", "--dport", "-j", "--state", …
	Neg bool
	Val string
}

type Rule struct {
	Opts []Opt
}

type Chain struct {
	Name   string
	Policy string // ACCEPT, DROP or "-" for user chains
	Rules  []Rule
}

type Table struct {
	Name   string
	Chains []*Chain
}

type Ruleset struct {
	Tables []*Table
}

func (rs *Ruleset) Clone() *Ruleset {
	n := &Ruleset{}
	for _, t := range rs.Tables {
		nt := &Table{Name: t.Name}
		for _, c := range t.Chains {
			nc := &Chain{Name: c.Name, Policy: c.Policy}
			for _, r := range c.Rules {
				nc.Rules = append(nc.Rules, Rule{append([]Opt(nil), r.Opts...)})
			}
			nt.Chains = append(nt.Chains, nc)
		}
		n.Tables = append(n.Tables, nt)
	}
	return n
}

func (r Rule) get(key string) (Opt, bool) {
	for _, o := range r.Opts {
		if o.Key == key {
			return o, true
		}
	}
	return Opt{}, false
}

// canonOpt maps every spelling of an option value to one canonical value; used
// for the node's own equality (the semantic identity of a rule).
func canonOpt(o Opt, r Rule) Opt {
	v := o.Val
	switch o.Key {
	case "-s", "-d":
		v = strings.TrimSuffix(v, "/32")
	case "-p":
		v = strings.ToLower(v)
		switch v {
		case "vrrp":
			v = "112"
		case "ipv6-icmp", "icmpv6":
			v = "58"
		case "6":
			v = "tcp"
		case "17":
			v = "udp"
		case "1":
			v = "icmp"
		}
	case "--sport", "--dport":
		lo, hi, rng := strings.Cut(v, ":")
		lo = strings.TrimLeft(lo, "0")
		if lo == "" {
			lo = "0"
		}
		if rng {
			hi = strings.TrimLeft(hi, "0")
			if hi == "" || hi == "65535" {
				hi = "65535"
			}
			if lo == "0" {
				lo = "0"
			}
			v = lo + ":" + hi
		} else {
			v = lo
		}
	case "--state":
		l := strings.Split(v, ",")
		sort.Strings(l)
		v = strings.Join(l, ",")
	case "--set-mark", "--set-xmark":
		val, mask, hasMask := strings.Cut(strings.ToLower(v), "/")
		if i, err := strconv.ParseInt(val, 0, 64); err == nil {
			val = strconv.FormatInt(i, 10)
		}
		if hasMask && mask != "0xffffffff" {
			return Opt{Key: "--set-xmark", Neg: o.Neg, Val: val + "/" + mask}
		}
		return Opt{Key: "--set-mark", Neg: o.Neg, Val: val}
	case "--log-level":
		names := map[string]string{"emerg": "0", "alert": "1", "crit": "2", "err": "3", "warning": "4",
			"notice": "5", "info": "6", "debug": "7"}
		if n, ok := names[v]; ok {
			v = n
		}
	}
	return Opt{Key: o.Key, Neg: o.Neg, Val: v}
}

// Canon renders a rule as a sorted option string without implied matches.
func (r Rule) Canon() string {
	var l []string
	proto := ""
	if p, ok := r.get("-p"); ok {
		proto = canonOpt(p, r).Val
	}
	for _, o := range r.Opts {
		c := canonOpt(o, r)
		// "-m tcp" behind "-p tcp" is implied by the port / flag matches.
		if c.Key == "-m" && (strings.EqualFold(c.Val, proto) || (proto == "58" && c.Val == "icmp6") || (proto == "1" && c.Val == "icmp")) {
			continue
		}
		if c.Key == "--tcp-flags" && c.Val == "FIN,SYN,RST,ACK SYN" {
			c = Opt{Key: "--syn", Neg: c.Neg}
		}
		neg := ""
		if c.Neg {
			neg = "! "
		}
		l = append(l, strings.TrimSpace(neg+c.Key+" "+c.Val))
	}
	sort.Strings(l)
	return strings.Join(l, " | ")
}

func (rs *Ruleset) Canon() []string {
	var out []string
	tabs := append([]*Table(nil), rs.Tables...)
	sort.Slice(tabs, func(i, j int) bool { return tabs[i].Name < tabs[j].Name })
	for _, t := range tabs {
		chs := append([]*Chain(nil), t.Chains...)
		sort.Slice(chs, func(i, j int) bool { return chs[i].Name < chs[j].Name })
		for _, c := range chs {
			out = append(out, fmt.Sprintf("%s:%s policy %s", t.Name, c.Name, c.Policy))
			for i, r := range c.Rules {
				out = append(out, fmt.Sprintf("%s:%s:%d %s", t.Name, c.Name, i, r.Canon()))
			}
		}
	}
	return out
}

// ParseRestore parses the input language of iptables-restore.
func ParseRestore(text string) (*Ruleset, error) {
	rs := &Ruleset{}
	var cur *Table
	for _, line := range strings.Split(text, "\n") {
		line = strings.TrimSpace(line)
		if line == "" || line[0] == '#' {
			continue
		}
		switch {
		case line[0] == '*':
			cur = &Table{Name: line[1:]}
			rs.Tables = append(rs.Tables, cur)
		case line[0] == ':':
			if cur == nil {
				return nil, fmt.Errorf("chain outside of table: %s", line)
			}
			f := strings.Fields(line[1:])
			if len(f) < 2 {
				return nil, fmt.Errorf("bad chain line: %s", line)
			}
			cur.Chains = append(cur.Chains, &Chain{Name: f[0], Policy: f[1]})
		case line == "COMMIT":
			cur = nil
		case strings.HasPrefix(line, "-A "):
			if cur == nil {
				return nil, fmt.Errorf("rule outside of table: %s", line)
			}
			f := strings.Fields(line)
			if len(f) < 2 {
				return nil, fmt.Errorf("bad rule: %s", line)
			}
			var ch *Chain
			for _, c := range cur.Chains {
				if c.Name == f[1] {
					ch = c
				}
			}
			if ch == nil {
				return nil, fmt.Errorf("iptables-restore: line: chain %s does not exist", f[1])
			}
			r, err := parseOpts(f[2:])
			if err != nil {
				return nil, fmt.Errorf("%v in %s", err, line)
			}
			ch.Rules = append(ch.Rules, r)
		default:
			return nil, fmt.Errorf("iptables-restore: unknown line: %s", line)
		}
	}
	// Jump targets must exist.
	for _, t := range rs.Tables {
		names := map[string]bool{}
		for _, c := range t.Chains {
			names[c.Name] = true
		}
		for _, c := range t.Chains {
			for _, r := range c.Rules {
				for _, k := range []string{"-j", "-g"} {
					if o, ok := r.get(k); ok && !builtinTarget(o.Val) && !names[o.Val] {
						return nil, fmt.Errorf("iptables-restore: target chain %s does not exist", o.Val)
					}
				}
			}
		}
	}
	return rs, nil
}

func builtinTarget(s string) bool {
	switch s {
	case "ACCEPT", "DROP", "REJECT", "LOG", "RETURN", "SNAT", "DNAT", "MASQUERADE", "MARK", "QUEUE", "NFLOG", "REDIRECT":
		return true
	}
	return false
}

func parseOpts(w []string) (Rule, error) {
	var r Rule
	for len(w) > 0 {
		neg := false
		if w[0] == "!" {
			neg = true
			w = w[1:]
			if len(w) == 0 {
				return r, fmt.Errorf("trailing '!'")
			}
		}
		key := w[0]
		if !strings.HasPrefix(key, "-") {
			return r, fmt.Errorf("unexpected word %q", key)
		}
		w = w[1:]
		if len(w) >= 2 && w[0] == "!" && !strings.HasPrefix(w[1], "-") {
			neg = true
			w = w[1:]
		}
		var args []string
		for len(w) > 0 && !strings.HasPrefix(w[0], "-") && w[0] != "!" {
			args = append(args, w[0])
			w = w[1:]
		}
		r.Opts = append(r.Opts, Opt{Key: key, Neg: neg, Val: strings.Join(args, " ")})
	}
	return r, nil
}

// Spelling variants of iptables-save (bit mask).
const (
	SpellHost32   = 1 << iota // -s 10.1.1.1/32
	SpellMatch                // -p tcp -m tcp
	SpellXmark                // --set-xmark 0x5/0xffffffff
	SpellPortEnd              // 1024:65535
	SpellState                // RELATED,ESTABLISHED
	SpellProtoNam             // vrrp, ipv6-icmp instead of numbers
	SpellLogLevel             // --log-level 7 stays; debug -> 7
	SpellSynFlags             // --tcp-flags FIN,SYN,RST,ACK SYN
	SpellCounters             // [123:456] behind chain policies, comment header
)

var kernelOrder = map[string]int{"-s": 1, "-d": 2, "-i": 3, "-o": 4, "-p": 5}

// Save prints the ruleset the way iptables-save does.
func (rs *Ruleset) Save(spell int) string {
	var b strings.Builder
	for _, t := range rs.Tables {
		if spell&SpellCounters != 0 {
			b.WriteString("# Generated by iptables-save v1.8.7 on Sun Sep 29 16:19:50 2024\n")
		}
		b.WriteString("*" + t.Name + "\n")
		for _, c := range t.Chains {
			if spell&SpellCounters != 0 {
				fmt.Fprintf(&b, ":%s %s [%d:%d]\n", c.Name, c.Policy, 17, 4711)
			} else {
				fmt.Fprintf(&b, ":%s %s [0:0]\n", c.Name, c.Policy)
			}
		}
		for _, c := range t.Chains {
			for _, r := range c.Rules {
				b.WriteString("-A " + c.Name + " " + r.kernel(spell) + "\n")
			}
		}
		b.WriteString("COMMIT\n")
		if spell&SpellCounters != 0 {
			b.WriteString("# Completed on Sun Sep 29 16:19:50 2024\n")
		}
	}
	return b.String()
}

func (r Rule) kernel(spell int) string {
	proto := ""
	if p, ok := r.get("-p"); ok {
		proto = strings.ToLower(p.Val)
	}
	hasM := map[string]bool{}
	for _, o := range r.Opts {
		if o.Key == "-m" {
			hasM[o.Val] = true
		}
	}
	render := func(o Opt) string {
		s := o.Key
		if o.Neg {
			s = "! " + s // the kernel prints the negation in front of the option
		}
		if o.Val != "" {
			s += " " + o.Val
		}
		return s
	}
	var head, mid, tgt []string
	addedM := map[string]bool{}
	for _, o := range r.Opts {
		v, key := o.Val, o.Key
		needM := ""
		switch o.Key {
		case "-s", "-d":
			if spell&SpellHost32 != 0 && !strings.Contains(v, "/") {
				v += "/32"
			}
		case "-p":
			v = strings.ToLower(v)
			if spell&SpellProtoNam != 0 {
				switch v {
				case "112":
					v = "vrrp"
				case "58":
					v = "ipv6-icmp"
				}
			}
		case "--dport", "--sport":
			if spell&SpellPortEnd != 0 && strings.HasSuffix(v, ":") {
				v += "65535"
			}
			if proto == "tcp" || proto == "udp" {
				needM = proto
			}
		case "--syn":
			// Only the negated form is spelled out: that is the variant the
			// suite documents ("! --tcp-flags FIN,SYN,RST,ACK SYN").
			if spell&SpellSynFlags != 0 && o.Neg {
				key, v = "--tcp-flags", "FIN,SYN,RST,ACK SYN"
			}
			needM = "tcp"
		case "--icmp-type":
			if proto == "icmp" {
				needM = "icmp"
			}
		case "--state":
			if spell&SpellState != 0 {
				st := strings.Split(v, ",")
				sort.Sort(sort.Reverse(sort.StringSlice(st)))
				v = strings.Join(st, ",")
			}
		case "--set-mark":
			if spell&SpellXmark != 0 {
				if n, err := strconv.ParseInt(v, 0, 64); err == nil {
					key, v = "--set-xmark", fmt.Sprintf("0x%x/0xffffffff", n)
				}
			}
		case "--log-level":
			if spell&SpellLogLevel != 0 && v == "debug" {
				v = "7"
			}
		}
		out := render(Opt{Key: key, Neg: o.Neg, Val: v})
		switch o.Key {
		case "-s", "-d", "-i", "-o", "-p":
			head = append(head, fmt.Sprintf("%d%s", kernelOrder[o.Key], out))
		case "-j", "-g", "--log-level", "--log-prefix", "--set-mark", "--set-xmark", "--to-source",
			"--to-destination", "--reject-with", "--to-ports":
			// the target and its options come last, target first
			if o.Key == "-j" || o.Key == "-g" {
				tgt = append([]string{out}, tgt...)
			} else {
				tgt = append(tgt, out)
			}
		default:
			// A match module is printed in front of its first option.
			if spell&SpellMatch != 0 && needM != "" && !hasM[needM] && !addedM[needM] {
				addedM[needM] = true
				mid = append(mid, "-m "+needM)
			}
			mid = append(mid, out)
		}
	}
	sort.Strings(head)
	for i := range head {
		head[i] = head[i][1:]
	}
	return strings.Join(append(append(head, mid...), tgt...), " ")
}

// RenderNetspoc prints the ruleset in the spelling of Netspoc's code file.
func (rs *Ruleset) RenderNetspoc() string {
	var b strings.Builder
	for _, t := range rs.Tables {
		b.WriteString("*" + t.Name + "\n")
		for _, c := range t.Chains {
			fmt.Fprintf(&b, ":%s %s\n", c.Name, c.Policy)
		}
		for _, c := range t.Chains {
			for _, r := range c.Rules {
				var parts []string
				// Netspoc puts the target first.
				for _, o := range r.Opts {
					if o.Key == "-j" || o.Key == "-g" {
						parts = append(parts, o.Key+" "+o.Val)
					}
				}
				for _, o := range r.Opts {
					if o.Key == "-j" || o.Key == "-g" {
						continue
					}
					s := o.Key
					if o.Neg {
						s = "! " + s
					}
					if o.Val != "" {
						s += " " + o.Val
					}
					parts = append(parts, s)
				}
				b.WriteString("-A " + c.Name + " " + strings.Join(parts, " ") + "\n")
			}
		}
		b.WriteString("COMMIT\n")
	}
	return b.String()
}

// ---- routes -----------------------------------------------------------------------

type Route struct {
	Dst  string // "10.1.1.0/24", "10.1.1.1", "default"
	Via  string // "" for link routes
	Dev  string
	Kind string // "static", "kernel" (proto kernel scope link), "link" (scope link), "proto" (proto 186 …)
}

func (r Route) show() string {
	switch r.Kind {
	case "kernel":
		return fmt.Sprintf("%s dev %s proto kernel scope link src 10.9.0.9", r.Dst, r.Dev)
	case "link":
		return fmt.Sprintf("%s dev %s scope link", r.Dst, r.Dev)
	case "proto":
		return fmt.Sprintf("%s via %s dev %s proto 186 metric 20", r.Dst, r.Via, r.Dev)
	}
	if r.Dev != "" {
		return fmt.Sprintf("%s via %s dev %s", r.Dst, r.Via, r.Dev)
	}
	return fmt.Sprintf("%s via %s", r.Dst, r.Via)
}

func normDst(d string) string {
	if d == "0.0.0.0/0" {
		return "default"
	}
	return strings.TrimSuffix(d, "/32")
}

// ---- the host -----------------------------------------------------------------------

type Host struct {
	Hostname string
	Issue    string
	Routes   []Route
	Rules    *Ruleset
	Files    map[string]string // startup files etc.
	Exec     map[string]bool   // executable bit
	ScpDir   string            // where the stub scp delivers files
	NoRestor bool              // "which iptables-restore" finds nothing
	spell    int
}

func (h *Host) Clone() *Host {
	n := &Host{Hostname: h.Hostname, Issue: h.Issue, Routes: append([]Route(nil), h.Routes...),
		Rules: h.Rules.Clone(), Files: map[string]string{}, Exec: map[string]bool{}, ScpDir: h.ScpDir, NoRestor: h.NoRestor}
	for k, v := range h.Files {
		n.Files[k] = v
	}
	for k, v := range h.Exec {
		n.Exec[k] = v
	}
	return n
}

// StaticRoutes lists the routes an administrator (or Netspoc) manages.
func (h *Host) StaticRoutes() []string {
	var l []string
	for _, r := range h.Routes {
		if r.Kind == "static" {
			l = append(l, normDst(r.Dst)+" via "+r.Via)
		}
	}
	sort.Strings(l)
	return l
}

// Fingerprint of everything that can be changed.
func (h *Host) Fingerprint() string {
	var files []string
	for k, v := range h.Files {
		files = append(files, k+"="+v)
	}
	sort.Strings(files)
	var rt []string
	for _, r := range h.Routes {
		rt = append(rt, r.show())
	}
	return strings.Join(rt, "\n") + "\n--\n" + strings.Join(h.Rules.Canon(), "\n") + "\n--\n" + strings.Join(files, "\n")
}

// pullScp moves files the stub scp delivered into the host's file system.
func (h *Host) pullScp() {
	if h.ScpDir == "" {
		return
	}
	filepath.Walk(h.ScpDir, func(p string, fi os.FileInfo, err error) error {
		if err != nil || fi.IsDir() {
			return nil
		}
		rel := strings.TrimPrefix(p, h.ScpDir)
		data, _ := os.ReadFile(p)
		h.Files[rel] = string(data)
		delete(h.Exec, rel)
		os.Remove(p)
		return nil
	})
}

// Run executes one shell command; it returns output and exit status, and
// whether it changed the system.
func (h *Host) Run(cmd string) (out string, status int, class string) {
	h.pullScp()
	f := strings.Fields(cmd)
	if len(f) == 0 {
		return "", 0, "session"
	}
	switch {
	case f[0] == "uname" && len(f) == 2 && f[1] == "-r":
		return "5.10.0-28-amd64\n", 0, "read"
	case f[0] == "uname" && len(f) == 2 && f[1] == "-m":
		return "x86_64\n", 0, "read"
	case cmd == "hostname -s":
		return h.Hostname + "\n", 0, "read"
	case f[0] == "grep" && strings.HasSuffix(cmd, " /etc/issue"):
		pat := strings.TrimSuffix(strings.TrimPrefix(cmd, "grep "), " /etc/issue")
		pat = strings.Trim(pat, "'")
		var hits []string
		for _, l := range strings.Split(h.Issue, "\n") {
			if pat != "" && strings.Contains(l, pat) {
				hits = append(hits, l)
			}
		}
		if len(hits) == 0 {
			return "", 1, "read"
		}
		return strings.Join(hits, "\n") + "\n", 0, "read"
	case cmd == "ip route show":
		var b strings.Builder
		for _, r := range h.Routes {
			b.WriteString(r.show() + "\n")
		}
		return b.String(), 0, "read"
	case cmd == "iptables-save":
		return h.Rules.Save(h.spell), 0, "read"
	case cmd == "which iptables-restore":
		if h.NoRestor {
			return "", 1, "read"
		}
		return "/sbin/iptables-restore\n", 0, "read"
	case f[0] == "ip" && len(f) >= 3 && f[1] == "route" && (f[2] == "add" || f[2] == "del"):
		// ip route add|del DST via HOP [dev X]
		if len(f) < 6 || f[4] != "via" {
			return "Error: inet prefix is expected rather than \"" + strings.Join(f[3:], " ") + "\".\n", 1, "change"
		}
		dst, hop := normDst(f[3]), f[5]
		if f[2] == "add" {
			for _, r := range h.Routes {
				if normDst(r.Dst) == dst && r.Kind == "static" {
					return "RTNETLINK answers: File exists\n", 2, "change"
				}
			}
			h.Routes = append(h.Routes, Route{Dst: dst, Via: hop, Dev: "eth0", Kind: "static"})
			return "", 0, "change"
		}
		for i, r := range h.Routes {
			if normDst(r.Dst) == dst && r.Via == hop && r.Kind == "static" {
				h.Routes = append(h.Routes[:i], h.Routes[i+1:]...)
				return "", 0, "change"
			}
		}
		return "RTNETLINK answers: No such process\n", 2, "change"
	case f[0] == "chmod" && len(f) == 3:
		if _, ok := h.Files[f[2]]; !ok {
			return "chmod: cannot access '" + f[2] + "': No such file or directory\n", 1, "change"
		}
		h.Exec[f[2]] = true
		return "", 0, "change"
	case f[0] == "mv" && len(f) == 4 && f[1] == "-f":
		data, ok := h.Files[f[2]]
		if !ok {
			return "mv: cannot stat '" + f[2] + "': No such file or directory\n", 1, "save"
		}
		h.Files[f[3]] = data
		h.Exec[f[3]] = h.Exec[f[2]]
		delete(h.Files, f[2])
		delete(h.Exec, f[2])
		return "", 0, "save"
	case len(f) == 1 && strings.HasPrefix(f[0], "/"):
		data, ok := h.Files[f[0]]
		if !ok {
			return "-bash: " + f[0] + ": No such file or directory\n", 127, "change"
		}
		if !h.Exec[f[0]] {
			return "-bash: " + f[0] + ": Permission denied\n", 126, "change"
		}
		first, _, _ := strings.Cut(data, "\n")
		if !strings.HasSuffix(first, "iptables-restore") || !strings.HasPrefix(first, "#!") {
			return "-bash: " + f[0] + ": cannot execute: required file not found\n", 127, "change"
		}
		rs, err := ParseRestore(data)
		if err != nil {
			return err.Error() + "\n", 2, "change"
		}
		h.Rules = rs
		return "", 0, "change"
	}
	return "-bash: " + f[0] + ": command not found\n", 127, "other"
}

func (h *Host) SetSpell(s int) { h.spell = s }

// ---- dialogue -----------------------------------------------------------------------

type Device struct {
	Host     *Host
	Sess     *sshx.Session
	Log      *evlog.Log
	Password string
	HostKeyQ bool
	NoPwd    bool // key based login: no password prompt
	Faults   []cisco.Fault
	Transcr  []cisco.Rec
	FaultSeq int
	FaultK   int
	Fired    map[string]int
	k        int
	last     int // exit status of the last command
	bufK     int
}

func (d *Device) K() int { return d.k }

func (d *Device) fault(k int) *cisco.Fault {
	for i := range d.Faults {
		if d.Faults[i].At == k {
			return &d.Faults[i]
		}
	}
	return nil
}

func (d *Device) fired(f *cisco.Fault) {
	if d.Fired == nil {
		d.Fired = map[string]int{}
	}
	d.Fired[f.Kind]++
	switch f.Kind {
	case "slow", "hostkey-question":
	default:
		if d.FaultSeq < 0 {
			d.FaultSeq = d.Log.Seq()
			d.FaultK = d.k
			d.bufK = d.k
			if d.Sess.Pending() {
				d.bufK = d.k + 1
			}
		}
	}
	d.Log.Add("dev", "FAULT %s at k=%d", f.Kind, f.At)
}

func (d *Device) rec(class, line string) *cisco.Rec {
	d.Transcr = append(d.Transcr, cisco.Rec{K: d.k, Seq: d.Log.Add("dev", "recv[%s] %q", class, line),
		Class: class, Line: line, Buffered: d.FaultSeq >= 0 && d.k <= d.bufK, More: d.Sess.Pending()})
	return &d.Transcr[len(d.Transcr)-1]
}

func (d *Device) read() (string, bool) {
	l, ok := d.Sess.ReadLine()
	if ok {
		d.k++
	}
	return l, ok
}

func (d *Device) stall() {
	for {
		l, ok := d.read()
		if !ok {
			return
		}
		probe := d.Host.Clone()
		probe.ScpDir = ""
		_, _, cl := probe.Run(l)
		d.rec(cl, l)
	}
}

// Serve runs one login session.
func (d *Device) Serve() {
	d.FaultSeq = -1
	s := d.Sess
	defer d.Log.Add("dev", "session ends")
	if d.HostKeyQ {
		s.Send("The authenticity of host 'router (10.1.13.33)' can't be established.\n" +
			"Are you sure you want to continue connecting (yes/no)? ")
		l, ok := d.read()
		if !ok {
			return
		}
		d.rec("login", l)
		s.Send("\n")
	}
	prompt := d.Host.Hostname + ":~# "
	if !d.NoPwd {
		s.Send("admin@10.1.13.33's password: ")
		for tries := 0; ; tries++ {
			l, ok := d.read()
			if !ok {
				return
			}
			r := d.rec("login", "<password>")
			if f := d.fault(d.k); f != nil {
				r.Fault = f.Kind
				d.fired(f)
				switch f.Kind {
				case "stall":
					d.stall()
					return
				case "close", "close-after-echo":
					s.CloseFromDevice()
					return
				case "slow":
					time.Sleep(time.Duration(f.Arg) * time.Second)
				default:
					s.Send("\nPermission denied, please try again.\nadmin@10.1.13.33's password: ")
					continue
				}
			}
			if l != d.Password {
				s.Send("\nPermission denied, please try again.\nadmin@10.1.13.33's password: ")
				if tries >= 2 {
					s.CloseFromDevice()
					return
				}
				continue
			}
			break
		}
	}
	s.Send("\nLinux " + d.Host.Hostname + " 5.10.0-28-amd64\n" + prompt)
	for {
		l, ok := d.read()
		if !ok {
			return
		}
		if strings.HasPrefix(l, "PS1=") {
			d.rec("session", l)
			prompt = strings.TrimPrefix(l, "PS1=")
			if f := d.fault(d.k); f != nil {
				d.fired(f)
				switch f.Kind {
				case "stall":
					d.stall()
					return
				case "close", "close-after-echo":
					s.CloseFromDevice()
					return
				}
			}
			s.Send(l + "\n" + prompt)
			continue
		}
		if l == "exit" {
			d.rec("cleanup", l)
			s.Send(l + "\nlogout\n")
			return
		}
		var out string
		var class string
		if l == "echo $?" {
			out, class = fmt.Sprintf("%d\n", d.last), "read"
		} else {
			// Classify first without executing.
			d.Host.Run("")
			probe := d.Host.Clone()
			probe.ScpDir = ""
			_, _, class = probe.Run(l)
		}
		r := d.rec(class, l)
		f := d.fault(d.k)
		if f != nil {
			r.Fault = f.Kind
			d.fired(f)
			switch f.Kind {
			case "stall":
				d.stall()
				return
			case "close":
				s.CloseFromDevice()
				return
			case "close-after-echo":
				s.Send(l + "\n")
				s.CloseFromDevice()
				return
			case "error-text":
				// The command fails: nothing is executed.
				d.last = 2
				s.Send(l + "\n" + "RTNETLINK answers: Operation not permitted\n" + prompt)
				continue
			case "nonzero-status":
				// No output, but the exit status tells the failure.
				d.last = 1
				s.Send(l + "\n" + prompt)
				continue
			case "garbage-output":
				d.last = 0
				s.Send(l + "\n" + "%$&# unexpected text (fault injected)\n" + prompt)
				continue
			case "garbled-echo":
				s.Send("X" + l + "\n" + prompt)
				continue
			case "slow":
				time.Sleep(time.Duration(f.Arg) * time.Second)
			}
		}
		if l != "echo $?" {
			before := d.Host.Fingerprint()
			var st int
			out, st, _ = d.Host.Run(l)
			d.last = st
			r.Changed = before != d.Host.Fingerprint()
			if st != 0 && class != "read" {
				r.Reject = strings.TrimSpace(out)
				d.Log.Add("dev", "REJECT %s", r.Reject)
			}
		}
		s.Send(l + "\n" + out + prompt)
	}
}
