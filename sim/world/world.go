// Package world owns everything around the tool in one simulated run: the
// basedir tree, HOME, arguments, captured output, and the synctest bubble in
// which the real drc.Main / doapprove.Main is executed.
package world

import (
	"fmt"
	"os"
	"path/filepath"
	"runtime/debug"
	"sort"
	"strings"
	"testing"
	"testing/synctest"
	"time"
)

type World struct {
	Dir      string // HOME and basedir
	DevName  string
	Policy   string // "p1"
	TestTime string // value of TEST_TIME for the tool ("" = simulated clock of the bubble)
}

type Opts struct {
	Model       string            // ASA, IOS, Linux, NSX, PAN-OS
	DevName     string            // default "router"
	Files       map[string]string // relative to code dir, e.g. "router", "ipv6/router", "router.raw"
	Info        string            // content of router.info; "" = default
	CheckBanner string            // "" = not configured
	Timeout     int               // 0 = default of the tool (60)
	LoginTO     int
	Password    string
	ExtraConf   string
}

var counter int

// New creates a fresh basedir below root.
func New(root string, o Opts) (*World, error) {
	counter++
	dir := filepath.Join(root, fmt.Sprintf("w%d", counter))
	if err := os.RemoveAll(dir); err != nil {
		return nil, err
	}
	w := &World{Dir: dir, DevName: o.DevName, Policy: "p1"}
	if w.DevName == "" {
		w.DevName = "router"
	}
	code := filepath.Join(dir, "policies", "p1", "code")
	for _, d := range []string{code, filepath.Join(dir, "lock"), filepath.Join(dir, "status"),
		filepath.Join(dir, "history"), filepath.Join(dir, "tmp")} {
		if err := os.MkdirAll(d, 0755); err != nil {
			return nil, err
		}
	}
	os.Symlink("p1", filepath.Join(dir, "policies", "current"))
	for name, content := range o.Files {
		p := filepath.Join(code, name)
		os.MkdirAll(filepath.Dir(p), 0755)
		if err := os.WriteFile(p, []byte(content), 0644); err != nil {
			return nil, err
		}
	}
	info := o.Info
	if info == "" {
		info = fmt.Sprintf("{\"model\":%q,\"name_list\":[%q],\"ip_list\":[\"10.1.13.33\"]}\n",
			o.Model, w.DevName)
	}
	if info != "NONE" {
		os.WriteFile(filepath.Join(code, w.DevName+".info"), []byte(info), 0644)
	}
	pw := o.Password
	if pw == "" {
		pw = "secret"
	}
	os.WriteFile(filepath.Join(dir, "credentials"), []byte("* admin "+pw+"\n"), 0644)
	conf := "basedir = " + dir + "\nsystemuser = admin\n"
	if o.CheckBanner != "" {
		conf += "checkbanner = " + o.CheckBanner + "\n"
	}
	if o.Timeout > 0 {
		conf += fmt.Sprintf("timeout = %d\n", o.Timeout)
	}
	if o.LoginTO > 0 {
		conf += fmt.Sprintf("login_timeout = %d\n", o.LoginTO)
	}
	conf += o.ExtraConf
	os.WriteFile(filepath.Join(dir, ".netspoc-approve"), []byte(conf), 0644)
	return w, nil
}

func (w *World) CodeFile() string {
	return filepath.Join(w.Dir, "policies", w.Policy, "code", w.DevName)
}

func (w *World) LogDir() string { return filepath.Join(w.Dir, "policies", w.Policy, "log") }

type Result struct {
	Exit    int
	Panic   string
	Stdout  string
	Stderr  string
	Elapsed time.Duration // simulated
	Hung    bool
}

// Snapshot returns path -> content of every regular file below dir, except
// the credentials store.
func Snapshot(dir string) map[string]string {
	m := map[string]string{}
	filepath.Walk(dir, func(p string, fi os.FileInfo, err error) error {
		if err != nil || fi.IsDir() {
			return nil
		}
		rel, _ := filepath.Rel(dir, p)
		if !fi.Mode().IsRegular() {
			return nil
		}
		data, _ := os.ReadFile(p)
		m[rel] = string(data)
		return nil
	})
	return m
}

func SnapshotString(m map[string]string) string {
	var keys []string
	for k := range m {
		keys = append(keys, k)
	}
	sort.Strings(keys)
	var b strings.Builder
	for _, k := range keys {
		fmt.Fprintf(&b, "== %s\n%s\n", k, m[k])
	}
	return b.String()
}

// Call runs mainFn with the process-global state (args, HOME, cwd, stdout,
// stderr) of a real invocation.  A runtime panic of the tool is what the
// operating system would report as exit status 2 plus a trace.
func (w *World) Call(args []string, mainFn func() int) (res Result) {
	oldArgs, oldOut, oldErr := os.Args, os.Stdout, os.Stderr
	oldWd, _ := os.Getwd()
	oldHome := os.Getenv("HOME")
	outF, _ := os.Create(filepath.Join(w.Dir, "tmp", "stdout"))
	errF, _ := os.Create(filepath.Join(w.Dir, "tmp", "stderr"))
	os.Args = args
	os.Stdout, os.Stderr = outF, errF
	os.Setenv("HOME", w.Dir)
	os.Setenv("TMPDIR", filepath.Join(w.Dir, "tmp"))
	os.Unsetenv("SIMULATE_ROUTER")
	os.Unsetenv("TEST_TIME")
	if w.TestTime != "" {
		os.Setenv("TEST_TIME", w.TestTime)
		defer os.Unsetenv("TEST_TIME")
	}
	os.Chdir(w.Dir)
	start := time.Now()
	defer func() {
		if e := recover(); e != nil {
			res.Exit = 2
			res.Panic = fmt.Sprintf("panic: %v\n%s", e, debug.Stack())
		}
		res.Elapsed = time.Since(start)
		os.Args, os.Stdout, os.Stderr = oldArgs, oldOut, oldErr
		os.Setenv("HOME", oldHome)
		os.Chdir(oldWd)
		outF.Close()
		errF.Close()
		o, _ := os.ReadFile(outF.Name())
		e, _ := os.ReadFile(errF.Name())
		res.Stdout, res.Stderr = string(o), string(e)
	}()
	res.Exit = mainFn()
	return
}

// Bubble runs f inside a synctest bubble and reports a bubble-level failure
// (deadlock at exit, i.e. a goroutine of the tool that never ends) as text.
func Bubble(t *testing.T, f func()) (trouble string) {
	defer func() {
		if e := recover(); e != nil {
			trouble = fmt.Sprintf("bubble: %v", e)
		}
	}()
	synctest.Test(t, func(t *testing.T) {
		f()
		// Let timers of abandoned helper goroutines (net/http, goexpect) expire.
		time.Sleep(3 * time.Hour)
		synctest.Wait()
	})
	return ""
}
