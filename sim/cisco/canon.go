package cisco

import (
	"fmt"
	"regexp"
	"sort"
	"strings"
)

// Scope says which anchors the target speaks about.
type Scope struct {
	Kind      string
	Ifaces    map[string]bool // ASA: nameif names bound in B; IOS: interface names of B
	RouteFams map[string]bool // "route", "ipv6 route", "ip route|VRF", "ipv6 route|VRF"
}

var asaBindRE = regexp.MustCompile(`^access-group (\S+) (in|out) interface (\S+)$`)
var asaCMIfRE = regexp.MustCompile(`^crypto map (\S+) interface (\S+)$`)

// RouteFam classifies a route line; "" if the line is no route.
func RouteFam(kind, head string) string {
	f := strings.Fields(head)
	if kind == "ASA" {
		if len(f) >= 5 && f[0] == "route" {
			return "route"
		}
		if len(f) >= 5 && f[0] == "ipv6" && f[1] == "route" {
			return "ipv6 route"
		}
		return ""
	}
	if len(f) >= 5 && f[0] == "ip" && f[1] == "route" {
		if f[2] == "vrf" {
			return "ip route|" + f[3]
		}
		return "ip route|"
	}
	if len(f) >= 4 && f[0] == "ipv6" && f[1] == "route" {
		if f[2] == "vrf" {
			return "ipv6 route|" + f[3]
		}
		return "ipv6 route|"
	}
	return ""
}

func ScopeOf(b *Conf) *Scope {
	s := &Scope{Kind: b.Kind, Ifaces: map[string]bool{}, RouteFams: map[string]bool{}}
	for _, o := range b.Objs {
		if o.Opaque {
			continue
		}
		if m := asaBindRE.FindStringSubmatch(o.Head); m != nil {
			s.Ifaces[m[3]] = true
		}
		if m := asaCMIfRE.FindStringSubmatch(o.Head); m != nil {
			s.Ifaces[m[2]] = true
		}
		if b.Kind == "IOS" && strings.HasPrefix(o.Head, "interface ") {
			s.Ifaces[strings.TrimPrefix(o.Head, "interface ")] = true
		}
		if f := RouteFam(b.Kind, o.Head); f != "" {
			s.RouteFams[f] = true
		}
	}
	return s
}

type canonizer struct {
	c     *Conf
	stack map[Ref]bool
}

// CanonACL renders an ACL with every object-group reference replaced by the
// group's content.
func (z *canonizer) acl(name string) string {
	a := z.c.ACL(name)
	if a == nil {
		return "<missing acl>"
	}
	var lines []string
	for _, e := range a.Entries {
		t := NormACE(z.c.Kind, e.Text)
		t = ogRefRE.ReplaceAllStringFunc(t, func(m string) string {
			return "object-group " + z.group(strings.TrimPrefix(m, "object-group "))
		})
		lines = append(lines, t)
	}
	if z.c.Kind == "IOS" {
		// The property is about filtering: log options do not filter.
		for i, l := range lines {
			lines[i] = strings.TrimSpace(logRE.ReplaceAllString(l+" ", " "))
		}
		// Maximal runs of the same action are multisets; remarks do not filter.
		var runs []string
		var cur []string
		act := ""
		flush := func() {
			if cur != nil {
				sort.Strings(cur)
				runs = append(runs, "["+strings.Join(cur, " | ")+"]")
				cur = nil
			}
		}
		for _, l := range lines {
			w := firstWord(l)
			if w == "remark" {
				continue
			}
			if w != act {
				flush()
				act = w
			}
			cur = append(cur, l)
		}
		flush()
		return strings.Join(runs, " ; ")
	}
	return strings.Join(lines, " ; ")
}

func (z *canonizer) group(name string) string {
	r := Ref{"og", name}
	if z.stack[r] {
		return "<cycle>"
	}
	z.stack[r] = true
	defer delete(z.stack, r)
	for _, o := range z.c.Objs {
		if o.Opaque {
			continue
		}
		if d, ok := defines(o.Head); ok && d == r {
			f := strings.Fields(o.Head)
			typ := strings.Join(append(f[1:2], f[3:]...), " ")
			var members []string
			for _, s := range o.Subs {
				if g, ok := strings.CutPrefix(s, "group-object "); ok {
					members = append(members, "group-object "+z.group(g))
				} else if strings.HasPrefix(s, "description ") {
					continue
				} else {
					members = append(members, s)
				}
			}
			sort.Strings(members)
			return "{" + typ + ": " + strings.Join(members, ", ") + "}"
		}
	}
	return "<missing group>"
}

var belongs = map[string]func(name string) *regexp.Regexp{
	"gp": func(n string) *regexp.Regexp { return regexp.MustCompile(`^group-policy ` + regexp.QuoteMeta(n) + ` `) },
	"tg": func(n string) *regexp.Regexp { return regexp.MustCompile(`^tunnel-group ` + regexp.QuoteMeta(n) + ` `) },
	"cryptomap": func(n string) *regexp.Regexp {
		return regexp.MustCompile(`^crypto map ` + regexp.QuoteMeta(n) + ` \d+ `)
	},
	"dynmap": func(n string) *regexp.Regexp {
		return regexp.MustCompile(`^crypto dynamic-map ` + regexp.QuoteMeta(n) + ` \d+ `)
	},
	"ts1": func(n string) *regexp.Regexp {
		return regexp.MustCompile(`^crypto ipsec ikev1 transform-set ` + regexp.QuoteMeta(n) + ` `)
	},
	"prop2": func(n string) *regexp.Regexp {
		return regexp.MustCompile(`^crypto ipsec ikev2 ipsec-proposal ` + regexp.QuoteMeta(n) + `$`)
	},
	"pool": func(n string) *regexp.Regexp {
		return regexp.MustCompile(`^ip local pool ` + regexp.QuoteMeta(n) + ` `)
	},
	"certmap": func(n string) *regexp.Regexp {
		return regexp.MustCompile(`^crypto ca certificate map ` + regexp.QuoteMeta(n) + ` \d+$`)
	},
	"user": func(n string) *regexp.Regexp { return regexp.MustCompile(`^username ` + regexp.QuoteMeta(n) + ` `) },
}

var seqRE = regexp.MustCompile(`^(crypto (?:dynamic-)?map \S+|crypto ca certificate map \S+) \d+`)
var peerRE = regexp.MustCompile(` set peer (.+)$`)

// line renders one command with the names of referenced objects replaced by
// their content.
func (z *canonizer) line(rules []refRule, l string) string {
	for _, r := range rules {
		m := r.re.FindStringSubmatchIndex(l)
		if m == nil {
			continue
		}
		out := l
		for g := len(r.kinds); g >= 1; g-- {
			lo, hi := m[2*g], m[2*g+1]
			k := r.kinds[g-1]
			var rep string
			if strings.HasPrefix(k, "*") {
				var parts []string
				for _, w := range strings.Fields(l[lo:hi]) {
					parts = append(parts, z.obj(Ref{k[1:], w}))
				}
				rep = strings.Join(parts, " ")
			} else {
				rep = z.obj(Ref{k, l[lo:hi]})
			}
			out = out[:lo] + rep + out[hi:]
		}
		return out
	}
	return l
}

// obj renders a referenced object by content, names erased.
func (z *canonizer) obj(r Ref) string {
	switch r.Kind {
	case "acl":
		return "<acl " + z.acl(r.Name) + ">"
	case "og":
		return z.group(r.Name)
	case "aaa", "ldapmap":
		return "<" + r.Kind + " " + r.Name + ">" // fixed names, transferred manually
	}
	if z.stack[r] {
		return "<cycle>"
	}
	z.stack[r] = true
	defer delete(z.stack, r)
	mk := belongs[r.Kind]
	if mk == nil {
		return "<" + r.Kind + " " + r.Name + ">"
	}
	re := mk(r.Name)
	var lines []string
	bySeq := map[string][]string{}
	for _, o := range z.c.Objs {
		if o.Opaque || !re.MatchString(o.Head) {
			continue
		}
		head := o.Head
		seq := ""
		if m := seqRE.FindStringSubmatch(head); m != nil {
			seq = head[len(m[1])+1 : len(m[0])]
		}
		h := z.line(topRefs, head)
		h = strings.Replace(h, " "+r.Name+" ", " $N ", 1)
		if strings.HasSuffix(h, " "+r.Name) {
			h = strings.TrimSuffix(h, r.Name) + "$N"
		}
		if seq != "" {
			h = strings.Replace(h, " $N "+seq, " $N $S", 1)
		}
		var subs []string
		for _, s := range o.Subs {
			subs = append(subs, z.line(subRefs, s))
		}
		sort.Strings(subs)
		if len(subs) > 0 {
			h += " {" + strings.Join(subs, "; ") + "}"
		}
		if seq != "" && (r.Kind == "cryptomap" || r.Kind == "dynmap") {
			bySeq[seq] = append(bySeq[seq], h)
		} else {
			lines = append(lines, h)
		}
	}
	for _, l := range bySeq {
		sort.Strings(l)
		lines = append(lines, "("+strings.Join(l, " & ")+")")
	}
	sort.Strings(lines)
	if len(lines) == 0 && builtin[r] {
		return "<builtin " + r.Name + ">"
	}
	if len(lines) == 0 {
		return "<missing " + r.Kind + ">"
	}
	return "<" + r.Kind + " " + strings.Join(lines, " ++ ") + ">"
}

var ipNameRE = regexp.MustCompile(`^\d+\.\d+\.\d+\.\d+$`)

// Canon is the canonical managed view: one line per anchor, sorted.
func Canon(c *Conf, sc *Scope) []string {
	z := &canonizer{c: c, stack: map[Ref]bool{}}
	var out []string
	seenTG := map[string]bool{}
	seenUser := map[string]bool{}
	for _, o := range c.Objs {
		if o.Opaque {
			continue
		}
		h := o.Head
		if c.Kind == "ASA" {
			if m := asaBindRE.FindStringSubmatch(h); m != nil {
				if sc.Ifaces[m[3]] {
					out = append(out, fmt.Sprintf("access-group %s interface %s = %s",
						m[2], m[3], z.acl(m[1])))
				}
				continue
			}
			if strings.HasPrefix(h, "access-group ") && strings.HasSuffix(h, " global") {
				out = append(out, "access-group global = "+z.acl(strings.Fields(h)[1]))
				continue
			}
			if m := asaCMIfRE.FindStringSubmatch(h); m != nil {
				if sc.Ifaces[m[2]] {
					out = append(out, "crypto map interface "+m[2]+" = "+
						z.obj(Ref{"cryptomap", m[1]}))
				}
				continue
			}
			if strings.HasPrefix(h, "tunnel-group-map ") {
				out = append(out, z.line(topRefs, h))
				continue
			}
			if h == "webvpn" {
				for _, s := range o.Subs {
					if strings.HasPrefix(s, "certificate-group-map ") {
						out = append(out, "webvpn / "+z.line(subRefs, s))
					}
				}
				continue
			}
			if strings.HasPrefix(h, "tunnel-group ") {
				name := strings.Fields(h)[1]
				if (ipNameRE.MatchString(name) || builtin[Ref{"tg", name}]) && !seenTG[name] {
					seenTG[name] = true
					out = append(out, "tunnel-group "+name+" = "+z.obj(Ref{"tg", name}))
				}
				continue
			}
			if strings.HasPrefix(h, "group-policy DfltGrpPolicy ") {
				if !seenTG["gp"] {
					seenTG["gp"] = true
					out = append(out, "group-policy DfltGrpPolicy = "+z.obj(Ref{"gp", "DfltGrpPolicy"}))
				}
				continue
			}
			if strings.HasPrefix(h, "username ") {
				name := strings.Fields(h)[1]
				if !seenUser[name] {
					seenUser[name] = true
					out = append(out, "username "+name+" = "+z.obj(Ref{"user", name}))
				}
				continue
			}
			if h == "no sysopt connection permit-vpn" {
				out = append(out, h)
				continue
			}
		} else if strings.HasPrefix(h, "interface ") {
			name := strings.TrimPrefix(h, "interface ")
			if !sc.Ifaces[name] {
				continue
			}
			for _, s := range o.Subs {
				if strings.HasPrefix(s, "ip access-group ") || strings.HasPrefix(s, "crypto map ") {
					out = append(out, "interface "+name+" / "+z.line(subRefs, s))
				}
			}
			continue
		}
		if f := RouteFam(c.Kind, h); f != "" {
			if sc.RouteFams[f] {
				out = append(out, h)
			}
			continue
		}
	}
	sort.Strings(out)
	return out
}

// DiffCanon returns the first difference of two canonical views, or "".
func DiffCanon(got, want []string) string {
	gm := map[string]int{}
	for _, g := range got {
		gm[g]++
	}
	for _, w := range want {
		if gm[w] == 0 {
			// Show the corresponding line of the device, if any.
			key := w
			if i := strings.Index(w, "<"); i > 0 {
				key = w[:i]
			} else if i := strings.Index(w, " = "); i > 0 {
				key = w[:i]
			}
			for _, g := range got {
				if strings.HasPrefix(g, key) && g != w {
					return "missing on device: " + w + " ## device has: " + g
				}
			}
			return "missing on device: " + w
		}
		gm[w]--
	}
	for _, g := range got {
		if gm[g] > 0 {
			return "unexpected on device: " + g
		}
	}
	return ""
}
