package cisco

import (
	"fmt"
	"regexp"
	"strings"
	"time"

	"verif/sim/evlog"
	"verif/sim/sshx"
)

// Fault is one injected deviation of the device, at the K-th line of input
// the device reads (1-based).
type Fault struct {
	At   int    `json:"at"`
	Kind string `json:"kind"`
	Arg  int    `json:"arg,omitempty"`  // offset, delay seconds, repeat count …
	Arg2 int    `json:"arg2,omitempty"` // banner: 1 = with extra prompt
}

// Rec is one transcript record: a line the device received.
type Rec struct {
	K        int    `json:"k"`
	Seq      int    `json:"seq"` // event sequence number
	Class    string `json:"class"`
	Line     string `json:"line"`
	Reject   string `json:"reject,omitempty"`
	Changed  bool   `json:"changed,omitempty"`
	Fault    string `json:"fault,omitempty"`
	Buffered bool   `json:"buffered,omitempty"` // was already in the receive buffer at fault time
	More     bool   `json:"more,omitempty"`     // a further input line was already buffered (first half of a joined line)
}

// Device is the SSH front end of an ASA or IOS node.
type Device struct {
	Node      *Node
	Startup   *Conf
	Sess      *sshx.Session
	Log       *evlog.Log
	PrintOpt  *PrintOpt
	Password  string
	Banner    string // login banner text (carries the managed-by marker or not)
	Hostname  string // what the device reports; normally Conf.Hostname
	HostKeyQ  bool   // ask the host key question first
	NeedEnPw  bool   // enable asks for a password
	NoEnable  bool   // login lands directly in enable mode
	PromptSp  bool   // prompt ends with a blank
	PagerSet  bool   // ASA: pager already off
	WidthSet  bool   // ASA: width already 511
	Faults    []Fault
	Transcr   []Rec
	FaultSeq  int // event seq at which the first fault was delivered (-1 none)
	FaultK    int // K of first fault
	faultBufK int // input lines with K <= faultBufK were buffered at fault time
	Saved     int // number of confirmed saves
	SaveTries int
	Sessions  int
	// IOS reload guard.
	ReloadAt      time.Time // zero = none pending
	warned1       bool
	ReloadFired   bool
	ReloadArmed   int // how often a reload was scheduled
	ReloadCancels int
	// Save behaviour (tape-chosen legal variants).
	SaveConfirm bool // IOS: asks "Overwrite the previous NVRAM configuration?[confirm]"
	SaveBusy    int  // IOS: answers "startup-config file open failed" n times first
	// Statistics.
	FaultsFired map[string]int
	// Legal warnings the device prints for certain commands.
	LegalWarn bool
	// JoinReplies: the answers to two commands that arrived in one packet
	// are delivered in one packet, too (otherwise the second answer is
	// delivered only after the tool has digested the first one).
	JoinReplies bool
	held        string
	// OnLine is called for every input line before it is processed
	// (process mode: scheduling / crash point).
	OnLine  func(k int, line string)
	k       int
	sysMode bool
	stalled bool
}

func (d *Device) prompt() string {
	p := d.hostname()
	if d.Node.InConfig {
		if d.Node.Conf.Kind == "ASA" || true {
			switch {
			case d.Node.cur != nil || d.Node.curACL != nil || d.sysMode:
				p += "(config-sub)"
			default:
				p += "(config)"
			}
		}
	}
	p += "#"
	if d.PromptSp {
		p += " "
	}
	return p
}

func (d *Device) hostname() string {
	if d.Hostname != "" {
		return d.Hostname
	}
	return d.Node.Conf.Hostname
}

func (d *Device) fault(k int) *Fault {
	for i := range d.Faults {
		if d.Faults[i].At == k {
			return &d.Faults[i]
		}
	}
	return nil
}

func (d *Device) fired(f *Fault) {
	if d.FaultsFired == nil {
		d.FaultsFired = map[string]int{}
	}
	d.FaultsFired[f.Kind]++
	if isDisturbing(f.Kind) && d.FaultSeq < 0 {
		d.FaultSeq = d.Log.Seq()
		d.FaultK = d.k
		// Lines that were already buffered at this moment.
		n := 0
		for d.Sess.Pending() && n < 1 {
			n++
			break
		}
		d.faultBufK = d.k
		if d.Sess.Pending() {
			d.faultBufK = d.k + 1
		}
	}
	d.Log.Add("dev", "FAULT %s at k=%d arg=%d", f.Kind, f.At, f.Arg)
}

// Faults that are legal behaviour of a healthy device do not count as a
// failure of the run.
func isDisturbing(kind string) bool {
	switch kind {
	case "warning-output", "info-output", "slow", "banner", "save-needs-confirm",
		"save-busy", "hostkey-question":
		return false
	}
	return true
}

func (d *Device) rec(class, line string) *Rec {
	d.Transcr = append(d.Transcr, Rec{K: d.k, Seq: d.Log.Add("dev", "recv[%s] %q", class, line),
		Class: class, Line: line, Buffered: d.FaultSeq >= 0 && d.k <= d.faultBufK,
		More: d.Sess.Pending()})
	return &d.Transcr[len(d.Transcr)-1]
}

func (d *Device) read() (string, bool) {
	l, ok := d.Sess.ReadLine()
	if ok {
		d.k++
		if d.OnLine != nil {
			d.OnLine(d.k, l)
		}
	}
	return l, ok
}

// stall: never answer again, but keep draining input so that the tool's
// writer is not blocked.
func (d *Device) stall() {
	d.stalled = true
	for {
		l, ok := d.read()
		if !ok {
			return
		}
		d.rec(d.classify(l), l)
	}
}

var errText = map[string]string{
	"ASA": "ERROR: % Invalid input detected at '^' marker.\n",
	"IOS": "% Invalid input detected at '^' marker.\n\n",
}

// Serve runs the whole dialogue of one session.
func (d *Device) Serve() {
	d.Sessions++
	d.FaultSeq = -1
	kind := d.Node.Conf.Kind
	s := d.Sess
	defer func() {
		d.Log.Add("dev", "session ends")
	}()
	// ---- login -----------------------------------------------------------
	if d.HostKeyQ {
		s.Send("The authenticity of host 'router (10.1.13.33)' can't be established.\n" +
			"ECDSA key fingerprint is ee:6e:ee:00:33:aa:22:88.\n" +
			"Are you sure you want to continue connecting (yes/no)? ")
		l, ok := d.read()
		if !ok {
			return
		}
		d.rec("login", l)
		s.Send("\n")
	}
	if d.Banner != "" {
		s.Send(d.Banner + "\n")
	}
	pwPrompt := "admin@10.1.13.33's password: "
	if kind == "IOS" {
		pwPrompt = "Enter Password:"
	}
	s.Send(pwPrompt)
	for tries := 0; ; tries++ {
		l, ok := d.read()
		if !ok {
			return
		}
		// The device never echoes input given at a password prompt.
		r := d.rec("login", "<password>")
		if f := d.fault(d.k); f != nil {
			r.Fault = f.Kind
			d.fired(f)
			switch f.Kind {
			case "stall":
				d.stall()
				return
			case "close", "close-after-echo":
				s.CloseFromDevice()
				return
			case "auth-reject":
				s.Send("\n" + pwPrompt)
				continue
			case "slow":
				time.Sleep(time.Duration(f.Arg) * time.Second)
			default:
				s.Send("\n" + pwPrompt)
				continue
			}
		}
		if l != d.Password {
			s.Send("\nPermission denied, please try again.\n" + pwPrompt)
			if tries >= 2 {
				s.CloseFromDevice()
				return
			}
			continue
		}
		break
	}
	s.Send("\n")
	if kind == "ASA" {
		s.Send("Type help or '?' for a list of available commands.\n")
	}
	enabled := d.NoEnable
	if !enabled {
		s.Send(d.hostname() + ">")
		for !enabled {
			l, ok := d.read()
			if !ok {
				return
			}
			r := d.rec("login", l)
			f := d.fault(d.k)
			if f != nil {
				r.Fault = f.Kind
				d.fired(f)
				switch f.Kind {
				case "stall":
					d.stall()
					return
				case "close":
					s.CloseFromDevice()
					return
				case "close-after-echo":
					s.Send(l + "\n")
					s.CloseFromDevice()
					return
				case "enable-reject":
					// e.g. IOS without an enable secret
					s.Send(l + "\n% No password set\n" + d.hostname() + ">")
					continue
				case "slow":
					time.Sleep(time.Duration(f.Arg) * time.Second)
				default:
					s.Send(l + "\n" + errText[kind] + d.hostname() + ">")
					continue
				}
			}
			if l == "enable" {
				s.Send(l + "\n")
				if d.NeedEnPw {
					s.Send("Password: ")
					pw, ok := d.read()
					if !ok {
						return
					}
					r := d.rec("login", "<password>")
					if f := d.fault(d.k); f != nil {
						r.Fault = f.Kind
						d.fired(f)
						switch f.Kind {
						case "stall":
							d.stall()
							return
						case "close", "close-after-echo":
							s.CloseFromDevice()
							return
						default:
							s.Send("\nPassword: ")
							continue
						}
					}
					if pw != d.Password {
						s.Send("\n% Access denied\n\n" + d.hostname() + ">")
						continue
					}
					s.Send("\n")
				}
				enabled = true
			} else {
				// Anything else typed at the user prompt is echoed and refused.
				s.Send(l + "\n" + errText[kind] + d.hostname() + ">")
			}
		}
	}
	s.Send(d.prompt())
	// ---- exec / config loop ---------------------------------------------
	for {
		l, ok := d.read()
		if !ok {
			return
		}
		if d.reloadDue() {
			return
		}
		class := d.classify(l)
		r := d.rec(class, l)
		f := d.fault(d.k)
		if f != nil && f.Kind != "banner" {
			r.Fault = f.Kind
			d.fired(f)
			switch f.Kind {
			case "stall":
				d.stall()
				return
			case "close":
				s.CloseFromDevice()
				return
			case "close-after-echo":
				s.Send(l + "\n")
				s.CloseFromDevice()
				return
			case "error-text":
				// The device refuses the command: nothing is executed.
				s.Send(l + "\n" + errText[kind] + d.prompt())
				continue
			case "warning-then-error":
				// A warning the tool tolerates, followed by the refusal.
				w := "WARNING: something harmless happened (injected)\n"
				if kind == "ASA" && (strings.HasPrefix(l, "access-list ") || strings.HasPrefix(l, "no access-list ")) {
					w = "WARNING: Same object-group is used more than once in one config line\n"
				}
				if kind == "IOS" {
					w = ""
				}
				s.Send(l + "\n" + w + errText[kind] + d.prompt())
				continue
			case "garbage-output":
				s.Send(l + "\n" + "%$&# unexpected text (fault injected)\n" + d.prompt())
				continue
			case "garbled-echo":
				g := "X" + l
				if len(l) > 2 {
					g = l[:len(l)/2] + "~" + l[len(l)/2+1:]
				}
				s.Send(g + "\n" + d.prompt())
				continue
			case "slow":
				time.Sleep(time.Duration(f.Arg) * time.Second)
				if d.reloadDue() {
					return
				}
			case "save-no-ok", "save-busy", "save-needs-confirm", "save-too-large":
				// handled in doSave
			case "warning-output", "info-output":
				// handled below, after execution
			}
		}
		echo := l
		if f != nil && f.Kind == "banner" {
			r.Fault = "banner"
			d.fired(f)
			echo = d.bannerEcho(l, f)
		}
		out, quit := d.execLine(l, r, f)
		if quit {
			s.Send(echo + "\n")
			return
		}
		if out == "\x00" { // dialogue already completed inside
			continue
		}
		if f != nil && (f.Kind == "warning-output" || f.Kind == "info-output") && out == "" {
			if f.Kind == "warning-output" {
				out = "WARNING: something harmless happened (injected)\n"
			} else {
				out = "INFO: something harmless happened (injected)\n"
			}
		}
		resp := d.held + echo + "\n" + out + d.prompt()
		d.held = ""
		if d.JoinReplies && s.Pending() && (f == nil || f.Kind == "banner") {
			d.held = resp
			continue
		}
		s.Send(resp)
	}
}

var bell = "\x07"

func bannerText(msg string, withPrompt bool, prompt string) string {
	if withPrompt {
		return "\n\n\n\n\n" + bell + "***\n*** --- " + msg + " ---\n***\n\n" + prompt
	}
	return "\n\n\n" + bell + "***\n*** --- " + msg + " ---\n***\n"
}

// bannerEcho garbles the echo of a command with an asynchronous reload
// banner.  Arg = offset into the echo, Arg2&1 = extra prompt, Arg2&2 = use the
// one-minute warning: then the device first idles until one minute before the
// scheduled reload, so that the banner is the one its timer really produces.
func (d *Device) bannerEcho(l string, f *Fault) string {
	if d.ReloadAt.IsZero() {
		return l
	}
	msg := "SHUTDOWN in 0:02:00"
	if f.Arg2&2 != 0 {
		if w := d.ReloadAt.Add(-60 * time.Second).Sub(time.Now()); w > 0 {
			time.Sleep(w)
		}
		d.warned1 = true
		msg = "SHUTDOWN in 0:01:00"
	}
	o := f.Arg
	if o < 0 {
		o = 0
	}
	if o > len(l) {
		o = len(l)
	}
	withPrompt := f.Arg2&1 != 0 && (o == 0 || o == len(l))
	return l[:o] + bannerText(msg, withPrompt, d.prompt()) + l[o:]
}

// reloadDue checks the simulated reload timer.
func (d *Device) reloadDue() bool {
	if d.ReloadAt.IsZero() || time.Now().Before(d.ReloadAt) {
		return false
	}
	d.Log.Add("dev", "RELOAD FIRED: session dropped, startup configuration restored")
	d.ReloadFired = true
	d.ReloadAt = time.Time{}
	d.Node.Conf = d.Startup.Clone()
	d.Node.InConfig = false
	d.Sess.CloseFromDevice()
	return true
}

var sysSettingRE = regexp.MustCompile(
	`^(?:no logging console|line vty \d+ \d+|logging synchronous(?: level \S+)?|ip subnet-zero|ip classless|terminal width \d+)$`)
var reloadRE = regexp.MustCompile(`^(do )?reload in (\d+)$`)

func (d *Device) classify(l string) string {
	n := d.Node
	switch {
	case l == "":
		return "session"
	case reloadRE.MatchString(l), l == "reload cancel", l == "do reload cancel":
		return "guard"
	}
	if n.InConfig {
		switch {
		case l == "end" || l == "exit":
			return "confmode"
		case sysSettingRE.MatchString(l):
			return "prep"
		}
		return "change"
	}
	switch {
	case l == "configure terminal":
		return "confmode"
	case l == "write memory":
		return "save"
	case l == "exit":
		return "cleanup"
	case strings.HasPrefix(l, "sh ") || strings.HasPrefix(l, "show ") || l == "write term":
		return "read"
	case strings.HasPrefix(l, "term"):
		return "session"
	}
	return "other"
}

// execLine executes one line typed at the enable or configuration prompt and
// returns the output printed after the echo.
func (d *Device) execLine(l string, r *Rec, f *Fault) (out string, quit bool) {
	n := d.Node
	kind := n.Conf.Kind
	if m := reloadRE.FindStringSubmatch(l); m != nil && kind == "IOS" {
		if (m[1] == "do ") != n.InConfig {
			r.Reject = "reload command in wrong mode"
			return errText[kind], false
		}
		return d.doReload(l, m[2])
	}
	if n.InConfig {
		if sysSettingRE.MatchString(l) {
			if strings.HasPrefix(l, "terminal width") {
				d.WidthSet = true
			}
			if strings.HasPrefix(l, "line vty") {
				d.sysMode = true
			} else if !strings.HasPrefix(l, "logging synchronous") {
				d.sysMode = false
			}
			return "", false
		}
		d.sysMode = false
		rej, changed := n.Exec(l)
		r.Reject, r.Changed = rej, changed
		if rej != "" {
			d.Log.Add("dev", "REJECT %s", rej)
			if kind == "ASA" {
				return "ERROR: " + rej + "\n", false
			}
			return "% " + rej + "\n", false
		}
		if d.LegalWarn && kind == "ASA" {
			if strings.HasPrefix(l, "access-list ") || strings.HasPrefix(l, "no access-list ") {
				if refs := aceRefs(l); len(refs) == 2 && refs[0] == refs[1] {
					return "WARNING: Same object-group is used more than once in one config line. This config is redundant. Please use seperate object-groups\n", false
				}
			}
		}
		return "", false
	}
	switch {
	case l == "":
		return "", false
	case l == "exit":
		return "", true
	case l == "configure terminal":
		n.InConfig = true
		if kind == "IOS" {
			return "Enter configuration commands, one per line.  End with CNTL/Z.\n", false
		}
		return "", false
	case l == "sh pager" && kind == "ASA":
		if d.PagerSet {
			return "no pager\n", false
		}
		return "pager lines 24\n", false
	case l == "terminal pager 0" && kind == "ASA":
		d.PagerSet = true
		return "", false
	case l == "sh term" && kind == "ASA":
		if d.WidthSet {
			return "\nWidth = 511, no monitor\nterminal interactive\n", false
		}
		return "\nWidth = 80, no monitor\nterminal interactive\n", false
	case (l == "term len 0" || l == "term width 512") && kind == "IOS":
		return "", false
	case l == "sh ver":
		if kind == "ASA" {
			return "Cisco Adaptive Security Appliance Software Version 9.16(4)\n" +
				"Hardware:   ASA5555, 16384 MB RAM\n", false
		}
		return "Cisco IOS Software, C2900 Software (C2900-UNIVERSALK9-M), Version 15.1(4)M4\n", false
	case l == "show hostname" && kind == "ASA":
		return d.hostname() + "\n", false
	case l == "write term" && kind == "ASA":
		return ": Saved\n:\n" + Print(n.Conf, d.PrintOpt) + ": end\n", false
	case l == "sh run" && kind == "IOS":
		return Print(n.Conf, d.PrintOpt), false
	case l == "write memory":
		return d.doSave(f), false
	case l == "reload cancel" && kind == "IOS":
		return d.doCancel(), false
	}
	r.Reject = "unknown exec command"
	return errText[kind], false
}

func (d *Device) dirty() bool {
	return Print(d.Node.Conf, nil) != Print(d.Startup, nil)
}

// doReload runs the interactive part of "reload in N".
func (d *Device) doReload(l, minutes string) (string, bool) {
	s := d.Sess
	s.Send(l + "\n\n")
	if d.dirty() {
		s.Send("System configuration has been modified. Save? [yes/no]: ")
		a, ok := d.read()
		if !ok {
			return "", true
		}
		d.rec("guard", a)
		if fl := d.fault(d.k); fl != nil && fl.Kind != "banner" {
			d.fired(fl)
			switch fl.Kind {
			case "stall":
				d.stall()
				return "", true
			case "close", "close-after-echo":
				s.CloseFromDevice()
				return "", true
			}
		}
		s.Send(a + "\n")
		if strings.HasPrefix(strings.ToLower(a), "y") {
			d.Startup = d.Node.Conf.Clone()
			d.Saved++
		}
	}
	s.Send("Reload reason: Reload Command\nProceed with reload? [confirm]")
	a, ok := d.read()
	if !ok {
		return "", true
	}
	d.rec("guard", a)
	if fl := d.fault(d.k); fl != nil && fl.Kind != "banner" {
		d.fired(fl)
		switch fl.Kind {
		case "stall":
			d.stall()
			return "", true
		case "close", "close-after-echo":
			s.CloseFromDevice()
			return "", true
		}
	}
	if a != "" && !strings.HasPrefix(strings.ToLower(a), "y") {
		s.Send(a + "\n" + d.prompt())
		return "\x00", false
	}
	var m int
	fmt.Sscanf(minutes, "%d", &m)
	d.ReloadAt = time.Now().Add(time.Duration(m) * time.Minute)
	d.warned1 = false
	d.ReloadArmed++
	d.Log.Add("dev", "reload armed in %d min", m)
	// The confirmation is echoed as an empty line; the caller prints the prompt.
	s.Send("\n" + d.prompt())
	return "\x00", false
}

func (d *Device) doCancel() string {
	if d.ReloadAt.IsZero() {
		return "%No reload is scheduled.\n"
	}
	d.ReloadAt = time.Time{}
	d.ReloadCancels++
	d.Log.Add("dev", "reload cancelled")
	// The prompt comes first, then the asynchronous banner; "logging
	// synchronous" makes the device print a fresh prompt after it.
	return d.prompt() + "\n\n\n" + bell + "***\n*** --- SHUTDOWN ABORTED ---\n***\n"
}

func (d *Device) doSave(f *Fault) string {
	kind := d.Node.Conf.Kind
	d.SaveTries++
	if f != nil {
		switch f.Kind {
		case "save-no-ok":
			return "Building configuration...\n%Error opening nvram:/startup-config (No space left on device)\n"
		case "save-too-large":
			return "Building configuration...\n% Configuration buffer full, can't add command\n%Configuration too large to fit in nvram\n"
		}
	}
	if kind == "IOS" && d.SaveBusy > 0 {
		d.SaveBusy--
		return "startup-config file open failed (Device or resource busy)\n"
	}
	if kind == "IOS" && d.SaveConfirm {
		d.SaveConfirm = false
		s := d.Sess
		s.Send("write memory\nWarning: Attempting to overwrite an NVRAM configuration previously written\n" +
			"by a different version of the system image.\n" +
			"Overwrite the previous NVRAM configuration?[confirm]")
		a, ok := d.read()
		if !ok {
			return ""
		}
		r := d.rec("save", a)
		if fl := d.fault(d.k); fl != nil {
			r.Fault = fl.Kind
			d.fired(fl)
			switch fl.Kind {
			case "stall":
				d.stall()
				return "\x00"
			case "close", "close-after-echo":
				s.CloseFromDevice()
				return "\x00"
			case "slow":
				time.Sleep(time.Duration(fl.Arg) * time.Second)
			default:
				// The save fails after the confirmation.
				s.Send(a + "\nBuilding configuration...\n% Compressed configuration is too large for nvram\n%Error: startup-config not written\n" + d.prompt())
				return "\x00"
			}
		}
		d.Startup = d.Node.Conf.Clone()
		d.Saved++
		d.Log.Add("dev", "configuration saved")
		s.Send(a + "\nBuilding configuration...\n  Compressed configuration from 10194 bytes to 5372 bytes[OK]\n" + d.prompt())
		return "\x00"
	}
	d.Startup = d.Node.Conf.Clone()
	d.Saved++
	d.Log.Add("dev", "configuration saved")
	if kind == "ASA" {
		return "Building configuration...\nCryptochecksum: abcdef01 44444444 12345678 98765432\n\n" +
			"123456 bytes copied in 0.330 secs\n[OK]\n"
	}
	return "Building configuration...\n  Compressed configuration from 106098 bytes to 30504 bytes[OK]\n"
}

// K is the number of input lines the device has read.
func (d *Device) K() int { return d.k }

// RunningEqualsStartup tells whether the configuration is saved.
func (d *Device) RunningEqualsStartup() bool { return !d.dirty() }
