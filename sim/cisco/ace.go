package cisco

import (
	"fmt"
	"net/netip"
	"strconv"
	"strings"
)

// Packet of the small universe used for first-match evaluation (C14).
type Packet struct {
	Proto    string // tcp, udp, icmp
	Src, Dst netip.Addr
	Port     int // destination port; icmp: type
}

type addrSpec struct {
	prefixes []netip.Prefix
}

func (a addrSpec) match(ip netip.Addr) bool {
	for _, p := range a.prefixes {
		if p.Contains(ip) {
			return true
		}
	}
	return false
}

type Rule struct {
	Permit     bool
	Proto      string // ip, tcp, udp, icmp, or number
	Src, Dst   addrSpec
	PLo, PHi   int // destination port range; 0,65535 = any
	SLo, SHi   int // source port range
	ICMPType   int // -1 any
	Unparsed   string
	SharedRefs []string // object-groups referenced
}

func maskBits(mask string, wildcard bool) (int, error) {
	m, err := netip.ParseAddr(mask)
	if err != nil {
		return 0, err
	}
	b := m.As4()
	bits := 0
	for _, x := range b {
		if wildcard {
			x = ^x
		}
		for i := 7; i >= 0; i-- {
			if x&(1<<uint(i)) != 0 {
				bits++
			} else {
				// rest must be zero
				if x&((1<<uint(i))-1) != 0 {
					return 0, fmt.Errorf("non-contiguous mask %s", mask)
				}
				break
			}
		}
		if x != 255 {
			break
		}
	}
	return bits, nil
}

// groupPrefixes expands a network object-group.
func groupPrefixes(c *Conf, name string, depth int) ([]netip.Prefix, error) {
	if depth > 5 {
		return nil, fmt.Errorf("group nesting too deep")
	}
	for _, o := range c.Objs {
		if o.Opaque {
			continue
		}
		if d, ok := defines(o.Head); ok && d == (Ref{"og", name}) {
			var res []netip.Prefix
			for _, s := range o.Subs {
				f := strings.Fields(s)
				switch {
				case len(f) == 3 && f[0] == "network-object" && f[1] == "host":
					a, err := netip.ParseAddr(f[2])
					if err != nil {
						return nil, err
					}
					res = append(res, netip.PrefixFrom(a, a.BitLen()))
				case len(f) == 3 && f[0] == "network-object":
					a, err := netip.ParseAddr(f[1])
					if err != nil {
						return nil, err
					}
					bits, err := maskBits(f[2], false)
					if err != nil {
						return nil, err
					}
					res = append(res, netip.PrefixFrom(a, bits))
				case len(f) == 2 && f[0] == "group-object":
					sub, err := groupPrefixes(c, f[1], depth+1)
					if err != nil {
						return nil, err
					}
					res = append(res, sub...)
				case f[0] == "description":
				default:
					return nil, fmt.Errorf("unsupported group member %q", s)
				}
			}
			return res, nil
		}
	}
	return nil, fmt.Errorf("missing object-group %s", name)
}

// ParseRule gives the filter semantics of one ACL entry of the generator's
// vocabulary.  ok=false for remarks.
func ParseRule(c *Conf, text string) (r Rule, ok bool, err error) {
	f := strings.Fields(NormACE(c.Kind, text))
	if len(f) > 0 && f[0] == "extended" {
		f = f[1:]
	}
	if len(f) == 0 || f[0] == "remark" {
		return r, false, nil
	}
	if _, e := strconv.Atoi(f[0]); e == nil {
		f = f[1:]
	}
	switch f[0] {
	case "permit":
		r.Permit = true
	case "deny":
	default:
		return r, false, fmt.Errorf("unknown action in %q", text)
	}
	if len(f) < 2 {
		return r, false, fmt.Errorf("short entry %q", text)
	}
	r.Proto = f[1]
	f = f[2:]
	r.PLo, r.PHi, r.SLo, r.SHi, r.ICMPType = 0, 65535, 0, 65535, -1
	addr := func() (addrSpec, error) {
		var a addrSpec
		if len(f) == 0 {
			return a, fmt.Errorf("missing address in %q", text)
		}
		switch f[0] {
		case "any", "any4":
			a.prefixes = []netip.Prefix{netip.MustParsePrefix("0.0.0.0/0")}
			f = f[1:]
		case "any6":
			a.prefixes = []netip.Prefix{netip.MustParsePrefix("::/0")}
			f = f[1:]
		case "host":
			ip, e := netip.ParseAddr(f[1])
			if e != nil {
				return a, e
			}
			a.prefixes = []netip.Prefix{netip.PrefixFrom(ip, ip.BitLen())}
			f = f[2:]
		case "object-group":
			p, e := groupPrefixes(c, f[1], 0)
			if e != nil {
				return a, e
			}
			r.SharedRefs = append(r.SharedRefs, f[1])
			a.prefixes = p
			f = f[2:]
		default:
			if strings.Contains(f[0], "/") {
				p, e := netip.ParsePrefix(f[0])
				if e != nil {
					return a, e
				}
				a.prefixes = []netip.Prefix{p}
				f = f[1:]
				break
			}
			if len(f) < 2 {
				return a, fmt.Errorf("bad address in %q", text)
			}
			ip, e := netip.ParseAddr(f[0])
			if e != nil {
				return a, e
			}
			bits, e := maskBits(f[1], c.Kind == "IOS")
			if e != nil {
				return a, e
			}
			a.prefixes = []netip.Prefix{netip.PrefixFrom(ip, bits).Masked()}
			f = f[2:]
		}
		return a, nil
	}
	port := func(lo, hi *int) error {
		if len(f) == 0 {
			return nil
		}
		switch f[0] {
		case "eq":
			p, e := strconv.Atoi(f[1])
			if e != nil {
				return e
			}
			*lo, *hi = p, p
			f = f[2:]
		case "range":
			a, e1 := strconv.Atoi(f[1])
			b, e2 := strconv.Atoi(f[2])
			if e1 != nil || e2 != nil {
				return fmt.Errorf("bad range in %q", text)
			}
			*lo, *hi = a, b
			f = f[3:]
		case "gt":
			p, e := strconv.Atoi(f[1])
			if e != nil {
				return e
			}
			*lo, *hi = p+1, 65535
			f = f[2:]
		case "lt":
			p, e := strconv.Atoi(f[1])
			if e != nil {
				return e
			}
			*lo, *hi = 0, p-1
			f = f[2:]
		}
		return nil
	}
	if r.Src, err = addr(); err != nil {
		return r, false, err
	}
	if r.Proto == "tcp" || r.Proto == "udp" {
		if err = port(&r.SLo, &r.SHi); err != nil {
			return r, false, err
		}
	}
	if r.Dst, err = addr(); err != nil {
		return r, false, err
	}
	if r.Proto == "tcp" || r.Proto == "udp" {
		if err = port(&r.PLo, &r.PHi); err != nil {
			return r, false, err
		}
	}
	if r.Proto == "icmp" && len(f) > 0 {
		if n, e := strconv.Atoi(f[0]); e == nil {
			r.ICMPType = n
			f = f[1:]
		}
	}
	// Remaining tokens: log options (no filter semantics).
	for len(f) > 0 {
		switch f[0] {
		case "log", "log-input", "interval", "disable", "default":
			f = f[1:]
		default:
			if _, e := strconv.Atoi(f[0]); e == nil {
				f = f[1:]
			} else {
				return r, false, fmt.Errorf("unparsed token %q in %q", f[0], text)
			}
		}
	}
	return r, true, nil
}

func (r *Rule) Match(p Packet) bool {
	if r.Proto != "ip" && r.Proto != p.Proto {
		return false
	}
	if !r.Src.match(p.Src) || !r.Dst.match(p.Dst) {
		return false
	}
	if (r.Proto == "tcp" || r.Proto == "udp") && (p.Port < r.PLo || p.Port > r.PHi) {
		return false
	}
	if r.Proto == "icmp" && r.ICMPType >= 0 && r.ICMPType != p.Port {
		return false
	}
	return true
}

// Verdict evaluates first match; an ACL denies what no entry matches.  The
// second result names the matching line (0 = implicit deny).
func Verdict(c *Conf, acl *ACL, p Packet) (permit bool, line int, err error) {
	if acl == nil {
		return true, -1, nil // no ACL bound: everything passes
	}
	for i, e := range acl.Entries {
		r, ok, err := ParseRule(c, e.Text)
		if err != nil {
			return false, 0, err
		}
		if ok && r.Match(p) {
			return r.Permit, i + 1, nil
		}
	}
	return false, 0, nil
}
