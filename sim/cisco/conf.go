// Package cisco is the executable device model for Cisco ASA and IOS.
//
// It is written from the devices' documented command semantics, not from the
// tool's parser: it has its own command tables, its own reference table and
// its own ACL arithmetic.  It is the reference against which the emitted
// change script is judged (C01, C02, C07, C08, C10, C14, C15).
package cisco

import (
	"fmt"
	"regexp"
	"sort"
	"strconv"
	"strings"
)

type ACE struct {
	Seq  int    // IOS sequence number (0 on ASA)
	Text string // ASA: "extended permit ...", "remark ..."; IOS: "permit ...", "remark ..."
}

type ACL struct {
	Name    string
	Entries []*ACE
}

// Obj is any other top-level command, with its sub-commands if it opens a mode.
type Obj struct {
	Head   string
	Subs   []string
	Mode   bool // opens a configuration sub-mode
	Opaque bool // unmodelled / unmanaged text, never interpreted
}

type Conf struct {
	Kind     string // "ASA" or "IOS"
	Hostname string
	ACLs     []*ACL
	Objs     []*Obj
}

func (c *Conf) Clone() *Conf {
	n := &Conf{Kind: c.Kind, Hostname: c.Hostname}
	for _, a := range c.ACLs {
		na := &ACL{Name: a.Name}
		for _, e := range a.Entries {
			ne := *e
			na.Entries = append(na.Entries, &ne)
		}
		n.ACLs = append(n.ACLs, na)
	}
	for _, o := range c.Objs {
		no := *o
		no.Subs = append([]string(nil), o.Subs...)
		n.Objs = append(n.Objs, &no)
	}
	return n
}

func (c *Conf) ACL(name string) *ACL {
	for _, a := range c.ACLs {
		if a.Name == name {
			return a
		}
	}
	return nil
}

func (c *Conf) Obj(head string) *Obj {
	for _, o := range c.Objs {
		if o.Head == head && !o.Opaque {
			return o
		}
	}
	return nil
}

func (c *Conf) removeObj(o *Obj) {
	for i, x := range c.Objs {
		if x == o {
			c.Objs = append(c.Objs[:i], c.Objs[i+1:]...)
			return
		}
	}
}

func (c *Conf) removeACL(a *ACL) {
	for i, x := range c.ACLs {
		if x == a {
			c.ACLs = append(c.ACLs[:i], c.ACLs[i+1:]...)
			return
		}
	}
}

// ---------------------------------------------------------------------------
// Reference table (from the ASA / IOS command references).

type Ref struct{ Kind, Name string }

type refRule struct {
	re    *regexp.Regexp
	kinds []string // kind per capture group; "*kind" = group holds a word list
}

func rr(re string, kinds ...string) refRule {
	return refRule{regexp.MustCompile(re), kinds}
}

var topRefs = []refRule{
	rr(`^access-group (\S+) (?:in|out) interface \S+`, "acl"),
	rr(`^access-group (\S+) global$`, "acl"),
	rr(`^crypto map (\S+) interface \S+$`, "cryptomap"),
	rr(`^crypto (?:dynamic-)?map \S+ \d+ match address (\S+)$`, "acl"),
	rr(`^crypto map \S+ \d+ ipsec-isakmp dynamic (\S+)$`, "dynmap"),
	rr(`^crypto (?:dynamic-)?map \S+ \d+ set ikev1 transform-set (.+)$`, "*ts1"),
	rr(`^crypto (?:dynamic-)?map \S+ \d+ set ikev2 ipsec-proposal (.+)$`, "*prop2"),
	rr(`^tunnel-group-map default-group (\S+)$`, "tg"),
	rr(`^tunnel-group-map (\S+) \d+ (\S+)$`, "certmap", "tg"),
}

var subRefs = []refRule{
	rr(`^default-group-policy (\S+)$`, "gp"),
	rr(`^authentication-server-group (\S+)$`, "aaa"),
	rr(`^vpn-filter value (\S+)$`, "acl"),
	rr(`^split-tunnel-network-list value (\S+)$`, "acl"),
	rr(`^address-pools value (.+)$`, "*pool"),
	rr(`^vpn-group-policy (\S+)$`, "gp"),
	rr(`^certificate-group-map (\S+) \d+ (\S+)$`, "certmap", "tg"),
	rr(`^group-object (\S+)$`, "og"),
	rr(`^ldap-attribute-map (\S+)$`, "ldapmap"),
	rr(`^map-value memberOf (?:"[^"]*"|\S+) (\S+)$`, "gp"),
	// IOS
	rr(`^ip access-group (\S+) (?:in|out)$`, "acl"),
	rr(`^crypto map (\S+)$`, "cryptomap"),
	rr(`^set ip access-group (\S+) (?:in|out)$`, "acl"),
}

func applyRules(rules []refRule, line string) (refs []Ref, key string, ok bool) {
	for _, r := range rules {
		m := r.re.FindStringSubmatchIndex(line)
		if m == nil {
			continue
		}
		key = line
		// Build key by blanking captured names, from right to left.
		for g := len(r.kinds); g >= 1; g-- {
			lo, hi := m[2*g], m[2*g+1]
			val := line[lo:hi]
			k := r.kinds[g-1]
			if strings.HasPrefix(k, "*") {
				for _, w := range strings.Fields(val) {
					refs = append(refs, Ref{k[1:], w})
				}
			} else {
				refs = append(refs, Ref{k, val})
			}
			key = key[:lo] + "*" + key[hi:]
		}
		return refs, key, true
	}
	return nil, line, false
}

var ogRefRE = regexp.MustCompile(`\bobject-group (\S+)`)

func aceRefs(text string) []Ref {
	var refs []Ref
	for _, m := range ogRefRE.FindAllStringSubmatch(text, -1) {
		refs = append(refs, Ref{"og", m[1]})
	}
	return refs
}

// Implicitly existing objects on an ASA.
var builtin = map[Ref]bool{
	{"gp", "DfltGrpPolicy"}:      true,
	{"tg", "DefaultL2LGroup"}:    true,
	{"tg", "DefaultRAGroup"}:     true,
	{"tg", "DefaultWEBVPNGroup"}: true,
}

var defRules = []refRule{
	rr(`^object-group (?:network|service|protocol|icmp-type) (\S+)`, "og"),
	rr(`^crypto map (\S+) \d+ `, "cryptomap"),
	rr(`^crypto dynamic-map (\S+) \d+ `, "dynmap"),
	rr(`^crypto ipsec ikev1 transform-set (\S+) `, "ts1"),
	rr(`^crypto ipsec ikev2 ipsec-proposal (\S+)$`, "prop2"),
	rr(`^tunnel-group (\S+) type `, "tg"),
	rr(`^group-policy (\S+) (?:internal|external)`, "gp"),
	rr(`^ip local pool (\S+) `, "pool"),
	rr(`^crypto ca certificate map (\S+) \d+$`, "certmap"),
	rr(`^aaa-server (\S+) protocol `, "aaa"),
	rr(`^ldap attribute-map (\S+)$`, "ldapmap"),
}

// Defines returns the object a top-level line defines, if any.
func defines(head string) (Ref, bool) {
	for _, r := range defRules {
		if m := r.re.FindStringSubmatch(head); m != nil {
			return Ref{r.kinds[0], m[1]}, true
		}
	}
	return Ref{}, false
}

func (c *Conf) Exists(r Ref) bool {
	if builtin[r] {
		return true
	}
	if r.Kind == "acl" {
		return c.ACL(r.Name) != nil
	}
	for _, o := range c.Objs {
		if o.Opaque {
			continue
		}
		if d, ok := defines(o.Head); ok && d == r {
			return true
		}
	}
	return false
}

// countDefs counts the top-level lines defining r.
func (c *Conf) countDefs(r Ref) int {
	n := 0
	for _, o := range c.Objs {
		if o.Opaque {
			continue
		}
		if d, ok := defines(o.Head); ok && d == r {
			n++
		}
	}
	return n
}

// RefsTo lists who references r (for diagnostics and the deletion check).
func (c *Conf) RefsTo(r Ref) []string {
	var who []string
	for _, a := range c.ACLs {
		for _, e := range a.Entries {
			for _, x := range aceRefs(e.Text) {
				if x == r {
					who = append(who, "access-list "+a.Name)
				}
			}
		}
	}
	for _, o := range c.Objs {
		if o.Opaque {
			continue
		}
		refs, _, _ := applyRules(topRefs, o.Head)
		for _, x := range refs {
			if x == r {
				who = append(who, o.Head)
			}
		}
		for _, s := range o.Subs {
			refs, _, _ := applyRules(subRefs, s)
			for _, x := range refs {
				if x == r {
					who = append(who, o.Head+" / "+s)
				}
			}
		}
	}
	return who
}

// ---------------------------------------------------------------------------
// Executor.

type Node struct {
	Conf     *Conf
	InConfig bool
	cur      *Obj // current sub-mode
	curACL   *ACL // IOS ACL mode
	// Strict: reject what the properties name (missing referent, deleting a
	// referenced object, duplicate ACE, wrong line / sequence number).
	Strict bool
}

func NewNode(c *Conf) *Node { return &Node{Conf: c, Strict: true} }

var topWords = map[string]bool{
	"access-list": true, "access-group": true, "object-group": true,
	"route": true, "ipv6": true, "crypto": true, "tunnel-group": true,
	"tunnel-group-map": true, "group-policy": true, "username": true,
	"ip": true, "webvpn": true, "aaa-server": true, "ldap": true,
	"interface": true, "clear": true, "sysopt": true, "exit": true,
	"end": true, "logging": true, "line": true, "terminal": true,
	"banner": true, "hostname": true,
}

// Words that are valid inside a given sub-mode although they are also
// top-level commands.
func ambiguousInMode(head, word string, body ...string) bool {
	second := ""
	nf := 0
	if len(body) > 0 {
		f := strings.Fields(strings.TrimPrefix(body[0], "no "))
		nf = len(f)
		if nf > 1 {
			second = f[1]
		}
	}
	switch {
	case strings.HasPrefix(head, "group-policy ") && word == "webvpn":
		return true
	case strings.HasPrefix(head, "username ") && word == "webvpn":
		return true
	case strings.HasPrefix(head, "interface "):
		// IOS interface mode: "ip address", "ip access-group" … and
		// "crypto map NAME" are sub-commands; "ip route", "ip access-list" …
		// are global commands and leave the mode.
		switch word {
		case "ip", "ipv6":
			switch second {
			case "route", "access-list", "classless", "subnet-zero", "local":
				return false
			}
			return true
		case "crypto":
			return second == "map" && nf == 3
		}
		return false
	case strings.HasPrefix(head, "line "):
		return word == "logging"
	}
	return false
}

var modeHeadRE = regexp.MustCompile(
	`^(?:object-group (?:network|protocol|icmp-type) \S+$` +
		`|object-group service \S+(?: (?:tcp|udp|tcp-udp))?$` +
		`|group-policy \S+ attributes$` +
		`|tunnel-group \S+ (?:general|ipsec|webvpn|ppp)-attributes$` +
		`|username \S+ attributes$` +
		`|crypto ca certificate map \S+ \d+$` +
		`|crypto ipsec ikev2 ipsec-proposal \S+$` +
		`|webvpn$` +
		`|aaa-server \S+ (?:\(\S+\) )?host \S+.*$` +
		`|aaa-server \S+ protocol \S+$` +
		`|ldap attribute-map \S+$` +
		`|interface \S+$` +
		`|line vty .*$` +
		`|crypto map \S+ \d+ (?:ipsec-isakmp|gdoi)$)`)

func isModeHead(kind, head string) bool {
	if !modeHeadRE.MatchString(head) {
		return false
	}
	if kind == "ASA" && strings.HasPrefix(head, "crypto map ") {
		return false // on ASA crypto map entries are single lines
	}
	return true
}

func firstWord(s string) string {
	w, _, _ := strings.Cut(s, " ")
	return w
}

// Exec applies one configuration-mode line.  It returns "" if the device
// accepts it, otherwise the reason for rejection; changed tells whether the
// configuration was modified.
func (n *Node) Exec(line string) (reject string, changed bool) {
	line = strings.TrimRight(line, " ")
	if !n.InConfig {
		return "not in configuration mode: " + line, false
	}
	if line == "" {
		return "", false
	}
	if line == "end" {
		n.InConfig = false
		n.cur, n.curACL = nil, nil
		return "", false
	}
	if line == "exit" {
		if n.cur != nil || n.curACL != nil {
			n.cur, n.curACL = nil, nil
		} else {
			n.InConfig = false
		}
		return "", false
	}
	before := n.fingerprint()
	rej := n.exec1(line)
	return rej, before != n.fingerprint()
}

func (n *Node) fingerprint() string { return Print(n.Conf, nil) }

func (n *Node) exec1(line string) string {
	c := n.Conf
	neg := false
	body := line
	if b, ok := strings.CutPrefix(line, "no "); ok {
		neg, body = true, b
	}
	w := firstWord(body)
	// IOS ACL mode.
	if n.curACL != nil {
		if rej, handled := n.execIOSACE(line); handled {
			return rej
		}
		n.curACL = nil
	}
	// Sub-mode.
	if n.cur != nil {
		if !topWords[w] || ambiguousInMode(n.cur.Head, w, body) {
			return n.execSub(n.cur, neg, body)
		}
		n.cur = nil
	}
	switch {
	case w == "access-list" && c.Kind == "ASA":
		return n.execASAACL(neg, body)
	case strings.HasPrefix(body, "clear configure "):
		return n.execClear(strings.TrimPrefix(body, "clear configure "))
	case strings.HasPrefix(body, "ip access-list resequence "):
		return n.execReseq(strings.Fields(body)[3:])
	case strings.HasPrefix(body, "ip access-list extended "):
		name := strings.TrimPrefix(body, "ip access-list extended ")
		a := c.ACL(name)
		if neg {
			if a == nil {
				return ""
			}
			if who := c.RefsTo(Ref{"acl", name}); len(who) > 0 && n.Strict {
				return fmt.Sprintf("deleting ACL %s still referenced by %q", name, who[0])
			}
			c.removeACL(a)
			return ""
		}
		if a == nil {
			a = &ACL{Name: name}
			c.ACLs = append(c.ACLs, a)
		}
		n.curACL = a
		return ""
	}
	return n.execTop(neg, body)
}

// -- generic top-level commands ---------------------------------------------

func (n *Node) checkRefs(refs []Ref, what string) string {
	if !n.Strict {
		return ""
	}
	for _, r := range refs {
		if !n.Conf.Exists(r) {
			return fmt.Sprintf("%q references missing %s %s", what, r.Kind, r.Name)
		}
	}
	return ""
}

func (n *Node) execTop(neg bool, body string) string {
	c := n.Conf
	// ASA: a trailing metric 1 is the default and not stored.
	if c.Kind == "ASA" {
		if f := strings.Fields(body); len(f) == 6 && f[5] == "1" &&
			(f[0] == "route" || (f[0] == "ipv6" && f[1] == "route")) {
			body = strings.Join(f[:5], " ")
		}
	}
	if neg {
		// "no sysopt connection permit-vpn" is itself a configuration line.
		if body == "sysopt connection permit-vpn" {
			if c.Obj("no sysopt connection permit-vpn") == nil {
				c.Objs = append(c.Objs, &Obj{Head: "no sysopt connection permit-vpn"})
			}
			return ""
		}
		o := c.Obj(body)
		if o == nil {
			// Metric may be omitted / a mode head names the whole object.
			return "" // removing something absent is tolerated silently
		}
		if d, ok := defines(o.Head); ok && n.Strict && c.countDefs(d) == 1 {
			if who := c.RefsTo(d); len(who) > 0 {
				return fmt.Sprintf("deleting %s %s still referenced by %q",
					d.Kind, d.Name, who[0])
			}
		}
		c.removeObj(o)
		return ""
	}
	if body == "sysopt connection permit-vpn" {
		if o := c.Obj("no sysopt connection permit-vpn"); o != nil {
			c.removeObj(o)
		}
		return ""
	}
	refs, key, hasRefs := applyRules(topRefs, body)
	if rej := n.checkRefs(refs, body); rej != "" {
		return rej
	}
	if isModeHead(c.Kind, body) {
		o := c.Obj(body)
		if o == nil {
			// An object-group of the same name but other type is an error.
			if d, ok := defines(body); ok && d.Kind == "og" && c.Exists(d) {
				return "object-group " + d.Name + " exists with different type"
			}
			o = &Obj{Head: body, Mode: true}
			c.Objs = append(c.Objs, o)
		}
		n.cur = o
		return ""
	}
	if c.Obj(body) != nil {
		return "" // idempotent
	}
	if hasRefs {
		// Same command with other referenced name is replaced.
		for _, o := range c.Objs {
			if o.Opaque || o.Mode {
				continue
			}
			if _, k, ok := applyRules(topRefs, o.Head); ok && k == key {
				o.Head = body
				return ""
			}
		}
	}
	c.Objs = append(c.Objs, &Obj{Head: body})
	return ""
}

func (n *Node) execSub(o *Obj, neg bool, body string) string {
	if neg {
		for i, s := range o.Subs {
			if s == body {
				o.Subs = append(o.Subs[:i], o.Subs[i+1:]...)
				return ""
			}
		}
		return ""
	}
	refs, key, hasRefs := applyRules(subRefs, body)
	if rej := n.checkRefs(refs, o.Head+" / "+body); rej != "" {
		return rej
	}
	for _, s := range o.Subs {
		if s == body {
			return ""
		}
	}
	if hasRefs && !strings.HasPrefix(body, "group-object ") &&
		!strings.HasPrefix(body, "certificate-group-map ") &&
		!strings.HasPrefix(body, "map-value ") {
		for i, s := range o.Subs {
			if _, k, ok := applyRules(subRefs, s); ok && k == key {
				o.Subs[i] = body
				return ""
			}
		}
	}
	o.Subs = append(o.Subs, body)
	return ""
}

// -- clear configure ----------------------------------------------------------

func (n *Node) execClear(arg string) string {
	c := n.Conf
	f := strings.Fields(arg)
	del := func(r Ref, match func(head string) bool) string {
		if who := c.RefsTo(r); len(who) > 0 && n.Strict {
			return fmt.Sprintf("clear configure %s: %s %s still referenced by %q",
				arg, r.Kind, r.Name, who[0])
		}
		var keep []*Obj
		for _, o := range c.Objs {
			if !o.Opaque && match(o.Head) {
				continue
			}
			keep = append(keep, o)
		}
		c.Objs = keep
		return ""
	}
	switch {
	case len(f) == 2 && f[0] == "access-list":
		a := c.ACL(f[1])
		if a == nil {
			return ""
		}
		if who := c.RefsTo(Ref{"acl", f[1]}); len(who) > 0 && n.Strict {
			return fmt.Sprintf("clear configure access-list %s: still referenced by %q", f[1], who[0])
		}
		c.removeACL(a)
		return ""
	case len(f) == 2 && f[0] == "object-group":
		name := f[1]
		return del(Ref{"og", name}, func(h string) bool {
			d, ok := defines(h)
			return ok && d == Ref{"og", name}
		})
	case len(f) == 2 && f[0] == "group-policy":
		name := f[1]
		return del(Ref{"gp", name}, func(h string) bool {
			return strings.HasPrefix(h, "group-policy "+name+" ")
		})
	case len(f) == 2 && f[0] == "tunnel-group":
		name := f[1]
		return del(Ref{"tg", name}, func(h string) bool {
			return strings.HasPrefix(h, "tunnel-group "+name+" ")
		})
	case len(f) == 2 && f[0] == "username":
		name := f[1]
		return del(Ref{"user", name}, func(h string) bool {
			return strings.HasPrefix(h, "username "+name+" ")
		})
	case len(f) >= 5 && strings.HasPrefix(arg, "crypto ca certificate map "):
		name := f[4]
		return del(Ref{"certmap", name}, func(h string) bool {
			return strings.HasPrefix(h, "crypto ca certificate map "+name+" ")
		})
	}
	return "unsupported: clear configure " + arg
}

// -- ASA access-list ----------------------------------------------------------

var lineNrRE = regexp.MustCompile(`^access-list (\S+) line (\d+) (.*)$`)
var aclRE = regexp.MustCompile(`^access-list (\S+) (.*)$`)

func (n *Node) execASAACL(neg bool, body string) string {
	c := n.Conf
	name, text := "", ""
	lineNr := 0
	if m := lineNrRE.FindStringSubmatch(body); m != nil {
		name, text = m[1], m[3]
		lineNr, _ = strconv.Atoi(m[2])
	} else if m := aclRE.FindStringSubmatch(body); m != nil {
		name, text = m[1], m[2]
	} else {
		return "bad access-list command: " + body
	}
	a := c.ACL(name)
	if neg {
		if a == nil {
			if n.Strict {
				return "no access-list: ACL " + name + " does not exist"
			}
			return ""
		}
		idx := -1
		if lineNr > 0 {
			if lineNr > len(a.Entries) {
				return fmt.Sprintf("no access-list %s line %d: ACL has only %d lines",
					name, lineNr, len(a.Entries))
			}
			if NormACE(c.Kind, a.Entries[lineNr-1].Text) != NormACE(c.Kind, text) {
				if n.Strict {
					return fmt.Sprintf(
						"no access-list %s line %d: line holds %q, command names %q",
						name, lineNr, a.Entries[lineNr-1].Text, text)
				}
			} else {
				idx = lineNr - 1
			}
		}
		if idx < 0 {
			for i, e := range a.Entries {
				if NormACE(c.Kind, e.Text) == NormACE(c.Kind, text) {
					idx = i
					break
				}
			}
		}
		if idx < 0 {
			if n.Strict {
				return fmt.Sprintf("no access-list %s: entry %q not found", name, text)
			}
			return ""
		}
		if len(a.Entries) == 1 {
			if who := c.RefsTo(Ref{"acl", name}); len(who) > 0 && n.Strict {
				return fmt.Sprintf(
					"deleting last line of ACL %s still referenced by %q", name, who[0])
			}
			c.removeACL(a)
			return ""
		}
		a.Entries = append(a.Entries[:idx], a.Entries[idx+1:]...)
		return ""
	}
	if rej := n.checkRefs(aceRefs(text), body); rej != "" {
		return rej
	}
	if a == nil {
		a = &ACL{Name: name}
		c.ACLs = append(c.ACLs, a)
	}
	if !strings.HasPrefix(text, "remark ") {
		k := aceKey(c.Kind, text)
		for i, e := range a.Entries {
			if !strings.HasPrefix(e.Text, "remark ") && aceKey(c.Kind, e.Text) == k {
				if n.Strict {
					return fmt.Sprintf("access-list %s: entry %q already present at line %d",
						name, text, i+1)
				}
				e.Text = text
				return ""
			}
		}
	}
	e := &ACE{Text: text}
	if lineNr <= 0 || lineNr > len(a.Entries) {
		if lineNr > len(a.Entries)+1 && n.Strict {
			return fmt.Sprintf("access-list %s line %d: beyond end (%d lines)",
				name, lineNr, len(a.Entries))
		}
		a.Entries = append(a.Entries, e)
	} else {
		a.Entries = append(a.Entries, nil)
		copy(a.Entries[lineNr:], a.Entries[lineNr-1:])
		a.Entries[lineNr-1] = e
	}
	return ""
}

// -- IOS access-list ----------------------------------------------------------

var seqACE = regexp.MustCompile(`^(\d+) ((?:permit|deny|remark) .*)$`)

func (n *Node) execReseq(f []string) string {
	if len(f) != 3 {
		return "bad resequence command"
	}
	a := n.Conf.ACL(f[0])
	if a == nil {
		if n.Strict {
			return "resequence: ACL " + f[0] + " does not exist"
		}
		return ""
	}
	start, _ := strconv.Atoi(f[1])
	step, _ := strconv.Atoi(f[2])
	if start <= 0 || step <= 0 {
		return "bad resequence arguments"
	}
	for i, e := range a.Entries {
		e.Seq = start + i*step
		if e.Seq > 2147483647 {
			return "resequence: sequence number overflow"
		}
	}
	return ""
}

func (n *Node) execIOSACE(line string) (string, bool) {
	a := n.curACL
	kind := n.Conf.Kind
	if num, ok := strings.CutPrefix(line, "no "); ok {
		if seq, err := strconv.Atoi(num); err == nil {
			for i, e := range a.Entries {
				if e.Seq == seq {
					a.Entries = append(a.Entries[:i], a.Entries[i+1:]...)
					return "", true
				}
			}
			if n.Strict {
				return fmt.Sprintf("ip access-list %s: no %d: no such entry", a.Name, seq), true
			}
			return "", true
		}
		w := firstWord(num)
		if w == "permit" || w == "deny" || w == "remark" {
			for i, e := range a.Entries {
				if NormACE(kind, e.Text) == NormACE(kind, num) {
					a.Entries = append(a.Entries[:i], a.Entries[i+1:]...)
					return "", true
				}
			}
			if n.Strict {
				return fmt.Sprintf("ip access-list %s: entry %q not found", a.Name, num), true
			}
			return "", true
		}
		return "", false
	}
	seq := 0
	text := line
	if m := seqACE.FindStringSubmatch(line); m != nil {
		seq, _ = strconv.Atoi(m[1])
		text = m[2]
	}
	w := firstWord(text)
	if w != "permit" && w != "deny" && w != "remark" {
		return "", false
	}
	if w != "remark" {
		k := aceKey(kind, text)
		for _, e := range a.Entries {
			if !strings.HasPrefix(e.Text, "remark ") && aceKey(kind, e.Text) == k {
				if n.Strict {
					return fmt.Sprintf("ip access-list %s: duplicate entry %q (seq %d)",
						a.Name, text, e.Seq), true
				}
				return "", true
			}
		}
	}
	if seq == 0 {
		last := 0
		for _, e := range a.Entries {
			if e.Seq > last {
				last = e.Seq
			}
		}
		seq = last + 10
	}
	pos := len(a.Entries)
	for i, e := range a.Entries {
		if e.Seq == seq {
			return fmt.Sprintf("ip access-list %s: sequence number %d already in use",
				a.Name, seq), true
		}
		if e.Seq > seq {
			pos = i
			break
		}
	}
	a.Entries = append(a.Entries, nil)
	copy(a.Entries[pos+1:], a.Entries[pos:])
	a.Entries[pos] = &ACE{Seq: seq, Text: text}
	return "", true
}

// ---------------------------------------------------------------------------
// ACE spelling.

var logRE = regexp.MustCompile(
	` log(?:-input)?(?: (?:\d+|emergencies|alerts|critical|errors|warnings|notifications|informational|debugging|disable|default))?(?: interval \d+)?`)

// aceKey identifies an entry for the duplicate check: two entries differing
// only in their log option cannot coexist on a device.
func aceKey(kind, text string) string {
	return logRE.ReplaceAllString(NormACE(kind, text), "")
}

// AceKey is the entry without its log option (see aceKey).
func AceKey(kind, text string) string { return aceKey(kind, text) }

type variant struct{ canon, alt string }

var portVariants = []variant{
	{"eq 80", "eq www"}, {"eq 22", "eq ssh"}, {"eq 443", "eq https"},
	{"eq 25", "eq smtp"}, {"eq 53", "eq domain"}, {"eq 23", "eq telnet"},
	{"eq 21", "eq ftp"},
}
var udpPortVariants = []variant{
	{"eq 53", "eq domain"}, {"eq 123", "eq ntp"}, {"eq 161", "eq snmp"},
	{"eq 514", "eq syslog"}, {"eq 69", "eq tftp"},
}
var logVariants = []variant{
	{"log 4", "log warnings"}, {"log 3", "log errors"}, {"log 7", "log debugging"},
	{"log 5", "log notifications"},
}
var protoVariants = []variant{
	{" 50 ", " esp "}, {" 51 ", " ah "}, {" 47 ", " gre "}, {" 89 ", " ospf "},
}

var hostMaskRE = regexp.MustCompile(`\b(\d+\.\d+\.\d+\.\d+) 255\.255\.255\.255\b`)
var hostRE = regexp.MustCompile(`\bhost (\d+\.\d+\.\d+\.\d+)\b`)

// NormACE maps every spelling the printer may produce back to the canonical
// (Netspoc) spelling.
func NormACE(kind, text string) string {
	t := " " + strings.Join(strings.Fields(text), " ") + " "
	isProto := func(p string) bool {
		return strings.Contains(t, " permit "+p+" ") || strings.Contains(t, " deny "+p+" ")
	}
	if isProto("tcp") {
		for _, v := range portVariants {
			t = strings.ReplaceAll(t, " "+v.alt+" ", " "+v.canon+" ")
		}
	}
	if isProto("udp") {
		for _, v := range udpPortVariants {
			t = strings.ReplaceAll(t, " "+v.alt+" ", " "+v.canon+" ")
		}
	}
	for _, v := range logVariants {
		t = strings.ReplaceAll(t, " "+v.alt+" ", " "+v.canon+" ")
	}
	for _, v := range protoVariants {
		for _, act := range []string{" permit", " deny"} {
			t = strings.ReplaceAll(t, act+v.alt, act+v.canon)
		}
	}
	if kind == "ASA" {
		t = hostMaskRE.ReplaceAllString(t, "host $1")
		t = strings.ReplaceAll(t, " 0.0.0.0 0.0.0.0 ", " any4 ")
	}
	return strings.TrimSpace(t)
}

// SpellACE renders a canonical entry in one of the device spellings.
// mask selects the variant families that are switched on.
func SpellACE(kind, text string, mask int) string {
	t := " " + text + " "
	isProto := func(p string) bool {
		return strings.Contains(t, " permit "+p+" ") || strings.Contains(t, " deny "+p+" ")
	}
	if mask&1 != 0 {
		if isProto("tcp") {
			for _, v := range portVariants {
				t = strings.ReplaceAll(t, " "+v.canon+" ", " "+v.alt+" ")
			}
		}
		if isProto("udp") {
			for _, v := range udpPortVariants {
				t = strings.ReplaceAll(t, " "+v.canon+" ", " "+v.alt+" ")
			}
		}
	}
	if mask&2 != 0 {
		for _, v := range logVariants {
			t = strings.ReplaceAll(t, " "+v.canon+" ", " "+v.alt+" ")
		}
	}
	if mask&4 != 0 {
		for _, v := range protoVariants {
			for _, act := range []string{" permit", " deny"} {
				t = strings.ReplaceAll(t, act+v.canon, act+v.alt)
			}
		}
	}
	if kind == "ASA" && mask&8 != 0 {
		t = hostRE.ReplaceAllString(t, "$1 255.255.255.255")
	}
	if kind == "ASA" && mask&16 != 0 {
		t = strings.ReplaceAll(t, " any4 ", " 0.0.0.0 0.0.0.0 ")
	}
	return strings.TrimSpace(t)
}

// ---------------------------------------------------------------------------
// Printer: what the device shows for "write term" / "sh run".

type PrintOpt struct {
	Spell     int  // variant mask for SpellACE
	IOSXESeq  bool // IOS-XE prints sequence numbers in front of ACL entries
	RouteMetr bool // ASA prints the metric behind routes
	PFSDeflt  bool // ASA >= 9.13 prints "set pfs group14" for the default
}

func Print(c *Conf, opt *PrintOpt) string {
	if opt == nil {
		opt = &PrintOpt{}
	}
	var b strings.Builder
	if c.Kind == "IOS" {
		b.WriteString("Building configuration...\n\nCurrent configuration : 4711 bytes\n!\n")
	}
	if c.Hostname != "" {
		fmt.Fprintf(&b, "hostname %s\n", c.Hostname)
	}
	printObj := func(o *Obj) {
		head := o.Head
		if c.Kind == "ASA" && opt.RouteMetr &&
			(strings.HasPrefix(head, "route ") || strings.HasPrefix(head, "ipv6 route ")) &&
			len(strings.Fields(head)) == 5 && !o.Opaque {
			head += " 1"
		}
		if c.Kind == "ASA" && opt.PFSDeflt && !o.Opaque &&
			strings.HasSuffix(head, " set pfs") {
			head += " group14"
		}
		b.WriteString(head + "\n")
		for _, s := range o.Subs {
			b.WriteString(" " + s + "\n")
		}
	}
	if c.Kind == "ASA" {
		// ASA order: interfaces, object-groups, access-lists, everything else.
		for _, o := range c.Objs {
			if strings.HasPrefix(o.Head, "interface ") {
				printObj(o)
				b.WriteString("!\n")
			}
		}
		for _, o := range c.Objs {
			if strings.HasPrefix(o.Head, "object-group ") {
				printObj(o)
			}
		}
		for _, a := range c.ACLs {
			for _, e := range a.Entries {
				fmt.Fprintf(&b, "access-list %s %s\n", a.Name, SpellACE(c.Kind, e.Text, opt.Spell))
			}
		}
		for _, o := range c.Objs {
			if strings.HasPrefix(o.Head, "interface ") || strings.HasPrefix(o.Head, "object-group ") {
				continue
			}
			printObj(o)
		}
		return b.String()
	}
	// IOS order: crypto maps, interfaces, routes, ACLs, rest.
	for _, o := range c.Objs {
		if strings.HasPrefix(o.Head, "crypto ") {
			printObj(o)
		}
	}
	for _, o := range c.Objs {
		if strings.HasPrefix(o.Head, "interface ") {
			printObj(o)
			b.WriteString("!\n")
		}
	}
	for _, o := range c.Objs {
		if strings.HasPrefix(o.Head, "crypto ") || strings.HasPrefix(o.Head, "interface ") || strings.HasPrefix(o.Head, "ipv6 access-list ") {
			continue
		}
		printObj(o)
	}
	for _, a := range c.ACLs {
		fmt.Fprintf(&b, "ip access-list extended %s\n", a.Name)
		for _, e := range a.Entries {
			t := SpellACE(c.Kind, e.Text, opt.Spell)
			if opt.IOSXESeq {
				fmt.Fprintf(&b, " %d %s\n", e.Seq, t)
			} else {
				fmt.Fprintf(&b, " %s\n", t)
			}
		}
	}
	// IPv6 ACLs follow the IPv4 ones.
	for _, o := range c.Objs {
		if strings.HasPrefix(o.Head, "ipv6 access-list ") {
			printObj(o)
		}
	}
	b.WriteString("end\n")
	return b.String()
}

// RenderNetspoc prints a configuration the way Netspoc writes its code file
// (canonical spelling, no sequence numbers, no hostname).
func RenderNetspoc(c *Conf) string {
	var b strings.Builder
	for _, o := range c.Objs {
		if strings.HasPrefix(o.Head, "object-group ") {
			b.WriteString(o.Head + "\n")
			for _, s := range o.Subs {
				b.WriteString(" " + s + "\n")
			}
		}
	}
	for _, a := range c.ACLs {
		if c.Kind == "ASA" {
			for _, e := range a.Entries {
				fmt.Fprintf(&b, "access-list %s %s\n", a.Name, e.Text)
			}
		} else {
			fmt.Fprintf(&b, "ip access-list extended %s\n", a.Name)
			for _, e := range a.Entries {
				fmt.Fprintf(&b, " %s\n", e.Text)
			}
		}
	}
	for _, o := range c.Objs {
		if strings.HasPrefix(o.Head, "object-group ") {
			continue
		}
		b.WriteString(o.Head + "\n")
		for _, s := range o.Subs {
			b.WriteString(" " + s + "\n")
		}
	}
	return b.String()
}

func sortedCopy(l []string) []string {
	r := append([]string(nil), l...)
	sort.Strings(r)
	return r
}

// ---------------------------------------------------------------------------
// Exported helpers for the oracles.

func ACERefs(text string) []Ref { return aceRefs(text) }

func Defines(head string) (Ref, bool) { return defines(head) }

// LineRefs lists everything a top-level command and its sub-commands reference.
func LineRefs(o *Obj) []Ref {
	refs, _, _ := applyRules(topRefs, o.Head)
	for _, s := range o.Subs {
		r, _, _ := applyRules(subRefs, s)
		refs = append(refs, r...)
	}
	return refs
}

// GroupRefs lists the groups nested in an object-group.
func GroupRefs(c *Conf, name string) []string {
	var l []string
	for _, o := range c.Objs {
		if o.Opaque {
			continue
		}
		if d, ok := defines(o.Head); ok && d == (Ref{"og", name}) {
			for _, s := range o.Subs {
				if g, ok := strings.CutPrefix(s, "group-object "); ok {
					l = append(l, g)
				}
			}
		}
	}
	return l
}

// EditingGroup names the object-group whose mode the node is in, if any.
func (n *Node) EditingGroup() string {
	if n.cur != nil {
		if d, ok := defines(n.cur.Head); ok && d.Kind == "og" {
			return d.Name
		}
	}
	return ""
}

var ownerRules = []refRule{
	rr(`^group-policy (\S+) attributes$`, "gp"),
	rr(`^tunnel-group (\S+) (?:general|ipsec|webvpn|ppp)-attributes$`, "tg"),
	rr(`^username (\S+) `, "user"),
	rr(`^aaa-server (\S+) `, "aaa"),
}

// Owner returns the named object a top-level line defines or belongs to
// (attribute blocks belong to their object).
func Owner(head string) (Ref, bool) {
	if d, ok := defines(head); ok {
		return d, true
	}
	for _, r := range ownerRules {
		if m := r.re.FindStringSubmatch(head); m != nil {
			return Ref{r.kinds[0], m[1]}, true
		}
	}
	return Ref{}, false
}
