//go:build verif

// Package procsim installs the simulator inside a real OS process (process
// mode, C12): every hook point and every device interaction is reported to the
// orchestrator over a unix socket and the process parks until it is released.
// The device is the in-process cisco node, loaded from and saved to a state
// file, with a session-overlap detector (O_CREAT|O_EXCL on a session file).
package procsim

import (
	"bufio"
	"encoding/json"
	"fmt"
	"net"
	"os"
	"runtime"
	"strings"
	"sync"
	"sync/atomic"
	"time"

	"github.com/hknutzen/Netspoc-Approve/go/pkg/verifhook"
	expect "github.com/tailscale/goexpect"
	"verif/sim/cisco"
	"verif/sim/evlog"
	"verif/sim/sshx"
)

type NodeFile struct {
	Conf     *cisco.Conf `json:"conf"`
	Startup  *cisco.Conf `json:"startup"`
	Password string      `json:"password"`
	Banner   string      `json:"banner"`
	Sessions int         `json:"sessions"`
}

var (
	mu      sync.Mutex
	conn    net.Conn
	rd      *bufio.Reader
	sess    *sshx.Session
	devDone chan struct{}
	// devWorking: the device goroutine is neither waiting for input nor
	// finished (it executes a line or writes the node's state back).
	devWorking atomic.Bool
)

func yield(point string) {
	// At the end of the program the device session is closed first (a real
	// ssh child ends with its parent), so that the node's state is written
	// back and the session marker removed before the process exits.
	if postSession(point) && sess != nil {
		select {
		case <-devDone:
		case <-time.After(100 * time.Millisecond):
			sess.Teardown()
			select {
			case <-devDone:
			case <-time.After(2 * time.Second):
			}
		}
	}
	// A process counts as parked only when its device goroutine is at rest,
	// too: otherwise the state file could still change "during" the park
	// (the write-back at the end of a session runs beside the tool's main
	// goroutine) and be blamed on whoever runs next.
	if strings.HasPrefix(point, "dev:") {
		// The device goroutine itself parks: at rest until released.
		devWorking.Store(false)
		defer devWorking.Store(true)
	} else {
		for i := 0; devWorking.Load() && i < 20000; i++ {
			time.Sleep(250 * time.Microsecond)
		}
		// A closed session ends with the write-back of the node's state:
		// wait for it (the device goroutine may not have noticed yet).
		if sess != nil && sess.IsClosed() {
			select {
			case <-devDone:
			case <-time.After(5 * time.Second):
			}
		}
	}
	// Buggify: a garbage collection with finalizers happens at every parking
	// point, so nothing may depend on an object staying alive by accident
	// (e.g. the lock's file descriptor being closed by a finalizer).
	runtime.GC()
	time.Sleep(time.Millisecond)
	mu.Lock()
	defer mu.Unlock()
	if conn == nil {
		return
	}
	fmt.Fprintf(conn, "point %s\n", point)
	// Park until released.  If the orchestrator goes away, go on.
	rd.ReadString('\n')
}

func init() {
	ctl := os.Getenv("VERIF_CTL")
	if ctl == "" {
		return
	}
	c, err := net.Dial("unix", ctl)
	if err != nil {
		fmt.Fprintln(os.Stderr, "procsim: ", err)
		os.Exit(3)
	}
	conn = c
	rd = bufio.NewReader(c)
	fmt.Fprintf(conn, "hello %s %d\n", os.Getenv("VERIF_PROC"), os.Getpid())
	rd.ReadString('\n')
	verifhook.Yield = yield
	nodePath := os.Getenv("VERIF_NODE")
	verifhook.Console = func(cmd []string, timeout time.Duration) (*expect.GExpect, error) {
		data, err := os.ReadFile(nodePath)
		if err != nil {
			return nil, err
		}
		var nf NodeFile
		if err := json.Unmarshal(data, &nf); err != nil {
			return nil, err
		}
		// Session-overlap detector.
		sf, err := os.OpenFile(nodePath+".session", os.O_CREATE|os.O_EXCL|os.O_WRONLY, 0644)
		if err != nil {
			os.WriteFile(nodePath+".overlap", []byte(fmt.Sprintf("second session opened by pid %d while another one is open\n", os.Getpid())), 0644)
		} else {
			fmt.Fprintf(sf, "%d\n", os.Getpid())
			sf.Close()
		}
		log := evlog.New()
		s := sshx.New(log, nil, nil)
		s.OnIdle = func(idle bool) { devWorking.Store(!idle) }
		devWorking.Store(true)
		sess = s
		devDone = make(chan struct{})
		dev := &cisco.Device{Node: cisco.NewNode(nf.Conf), Startup: nf.Startup, Log: log, PrintOpt: &cisco.PrintOpt{},
			Password: nf.Password, Banner: nf.Banner, FaultSeq: -1, Sess: s}
		dev.OnLine = func(k int, line string) {
			// The tool sends the final "exit" without waiting for an answer
			// and goes on; from here on main and device goroutine run side
			// by side.  The device does not park any more, and the main
			// goroutine waits for the end of the session at its next point
			// (postSession), so that the process as a whole is at rest
			// whenever the orchestrator sees it parked.
			if line == "exit" && !dev.Node.InConfig {
				return
			}
			yield(fmt.Sprintf("dev:%d", k))
		}
		go func() {
			dev.Serve()
			// Session over: write the state back, release the session marker.
			nf.Conf = dev.Node.Conf
			nf.Startup = dev.Startup
			nf.Sessions++
			out, _ := json.Marshal(nf)
			os.WriteFile(nodePath+".tmp", out, 0644)
			os.Rename(nodePath+".tmp", nodePath)
			if err == nil {
				os.Remove(nodePath + ".session")
			}
			devWorking.Store(false)
			close(devDone)
		}()
		return s.Spawn(timeout)
	}
}

// postSession: hook points that lie behind the device session of a run.
func postSession(point string) bool {
	for _, sfx := range []string{":end", ":after-run", ":before-status", ":after-status", "status:before-write", "status:after-write"} {
		if strings.HasSuffix(point, sfx) {
			return true
		}
	}
	return false
}
