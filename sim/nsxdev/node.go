// Package nsxdev is the executable model of an NSX-T manager's policy API:
// object stores for gateway policies (rules ordered by sequence_number),
// groups (one IPAddressExpression), services; session create with xsrf token
// and cookie; paged list requests; PUT / PATCH / POST ?action / DELETE with
// the referential rules NSX enforces (4xx on dangling references and on
// deletion of referenced objects).  Written from the NSX-T Policy API guide.
package nsxdev

import (
	"encoding/json"
	"fmt"
	"io"
	"net/http"
	"net/url"
	"sort"
	"strings"
	"time"

	"verif/sim/evlog"
)

type Obj = map[string]any

type Policy struct {
	ID    string
	Attrs Obj   // everything but id and rules
	Rules []Obj // each with "id"
}

type Fault struct {
	At   int    `json:"at"`
	Kind string `json:"kind"`
}

type Rec struct {
	K      int    `json:"k"`
	Seq    int    `json:"seq"`
	Class  string `json:"class"` // login, read, script
	Method string `json:"method"`
	Path   string `json:"path"`
	Body   string `json:"body,omitempty"`
	Reject string `json:"reject,omitempty"`
	Fault  string `json:"fault,omitempty"`
}

type Node struct {
	Policies []*Policy
	Groups   []Obj // each with "id", "expression"
	Services []Obj // each with "id", "service_entries"
	User     string
	Password string
	Token    string
	Cookie   string
	PageSize int // paging of list requests; 0 = everything on one page
	Log      *evlog.Log
	Faults   []Fault
	Transcr  []Rec
	FaultSeq int
	FaultK   int
	Fired    map[string]int
	Strict   bool
	Unreach  bool
	k        int
}

func NewNode() *Node {
	return &Node{User: "admin", Password: "secret", Token: "d4f6a2c1-tok", Cookie: "JSESSIONID=7B1C9E55AA", Strict: true, FaultSeq: -1}
}

func clone(o Obj) Obj {
	b, _ := json.Marshal(o)
	var n Obj
	json.Unmarshal(b, &n)
	return n
}

func (n *Node) Clone() *Node {
	c := *n
	c.Policies = nil
	for _, p := range n.Policies {
		np := &Policy{ID: p.ID, Attrs: clone(p.Attrs)}
		for _, r := range p.Rules {
			np.Rules = append(np.Rules, clone(r))
		}
		c.Policies = append(c.Policies, np)
	}
	c.Groups, c.Services = nil, nil
	for _, g := range n.Groups {
		c.Groups = append(c.Groups, clone(g))
	}
	for _, s := range n.Services {
		c.Services = append(c.Services, clone(s))
	}
	c.Transcr, c.Faults, c.Fired = nil, nil, nil
	c.k, c.FaultSeq = 0, -1
	return &c
}

func id(o Obj) string {
	s, _ := o["id"].(string)
	return s
}

func (n *Node) group(name string) Obj {
	for _, g := range n.Groups {
		if id(g) == name {
			return g
		}
	}
	return nil
}

func (n *Node) service(name string) Obj {
	for _, s := range n.Services {
		if id(s) == name {
			return s
		}
	}
	return nil
}

func (n *Node) policy(name string) *Policy {
	for _, p := range n.Policies {
		if p.ID == name {
			return p
		}
	}
	return nil
}

func strs(v any) []string {
	var l []string
	if a, ok := v.([]any); ok {
		for _, x := range a {
			if s, ok := x.(string); ok {
				l = append(l, s)
			}
		}
	}
	return l
}

const grpPrefix = "/infra/domains/default/groups/"
const svcPrefix = "/infra/services/"

// dangling lists references of rules to objects that do not exist.
func (n *Node) dangling() map[string]bool {
	res := map[string]bool{}
	for _, p := range n.Policies {
		for _, r := range p.Rules {
			for _, f := range []string{"source_groups", "destination_groups"} {
				for _, s := range strs(r[f]) {
					if g, ok := strings.CutPrefix(s, grpPrefix); ok && n.group(g) == nil {
						res[fmt.Sprintf("rule %s of %s: %s references missing group %s", id(r), p.ID, f, g)] = true
					}
				}
			}
			for _, s := range strs(r["services"]) {
				if sv, ok := strings.CutPrefix(s, svcPrefix); ok && n.service(sv) == nil {
					res[fmt.Sprintf("rule %s of %s references missing service %s", id(r), p.ID, sv)] = true
				}
			}
		}
	}
	return res
}

type rt struct{ n *Node }

func (n *Node) Client(timeout time.Duration) *http.Client {
	return &http.Client{Timeout: timeout, Transport: rt{n}}
}

func resp(req *http.Request, code int, body string, hdr http.Header) *http.Response {
	if hdr == nil {
		hdr = http.Header{}
	}
	hdr.Set("Content-Type", "application/json")
	return &http.Response{StatusCode: code, Status: fmt.Sprintf("%d %s", code, http.StatusText(code)),
		Proto: "HTTP/1.1", ProtoMajor: 1, ProtoMinor: 1, Header: hdr,
		Body: io.NopCloser(strings.NewReader(body)), Request: req, ContentLength: int64(len(body))}
}

func errBody(code int, msg string) string {
	b, _ := json.Marshal(map[string]any{"httpStatus": http.StatusText(code), "error_code": 500000 + code, "module_name": "Policy", "error_message": msg})
	return string(b)
}

func (t rt) RoundTrip(req *http.Request) (*http.Response, error) {
	n := t.n
	n.k++
	var body string
	if req.Body != nil {
		b, _ := io.ReadAll(req.Body)
		req.Body.Close()
		body = string(b)
	}
	class := "read"
	switch {
	case strings.HasSuffix(req.URL.Path, "/api/session/create"):
		class = "login"
	case req.Method != "GET":
		class = "script"
	}
	shownBody := body
	if class == "login" {
		shownBody = "<credentials>"
	}
	rec := Rec{K: n.k, Seq: n.Log.Add("dev", "req[%s] %s %s", class, req.Method, req.URL.RequestURI()), Class: class,
		Method: req.Method, Path: req.URL.RequestURI(), Body: shownBody}
	defer func() { n.Transcr = append(n.Transcr, rec) }()
	if n.Unreach {
		rec.Fault = "unreachable"
		return nil, fmt.Errorf("dial tcp %s: connect: no route to host", req.URL.Host)
	}
	if f := n.fault(n.k); f != nil {
		rec.Fault = f.Kind
		if n.Fired == nil {
			n.Fired = map[string]int{}
		}
		n.Fired[f.Kind]++
		if n.FaultSeq < 0 {
			n.FaultSeq, n.FaultK = n.Log.Seq(), n.k
		}
		n.Log.Add("dev", "FAULT %s at request %d", f.Kind, n.k)
		switch f.Kind {
		case "status-500":
			return resp(req, 500, errBody(500, "Internal server error (injected)"), nil), nil
		case "status-403":
			return resp(req, 403, errBody(403, "The credentials were incorrect or the account specified has been locked."), nil), nil
		case "status-409":
			return resp(req, 409, errBody(409, "The object was modified by somebody else (injected)"), nil), nil
		case "transport-error":
			return nil, fmt.Errorf("EOF")
		case "client-timeout":
			<-req.Context().Done()
			return nil, req.Context().Err()
		case "malformed-body":
			return resp(req, 200, `{"results": [ {"id": "Netspoc-`, nil), nil
		case "empty-body":
			if class == "read" {
				return resp(req, 200, "", nil), nil
			}
			return resp(req, 500, "", nil), nil
		case "wrong-root":
			return resp(req, 200, `<html><body>VMware NSX login</body></html>`, nil), nil
		}
	}
	if class == "login" {
		if err := req.ParseForm(); err == nil {
			// body was consumed above; parse it by hand
		}
		vals := parseForm(body)
		if vals["j_username"] != n.User || vals["j_password"] != n.Password {
			return resp(req, 403, errBody(403, "The credentials were incorrect or the account specified has been locked."), nil), nil
		}
		h := http.Header{}
		h.Set("x-xsrf-token", n.Token)
		h.Set("Set-Cookie", n.Cookie+"; Path=/; Secure; HttpOnly")
		return resp(req, 200, "", h), nil
	}
	if req.Header.Get("x-xsrf-token") != n.Token {
		return resp(req, 403, errBody(403, "This request was rejected: missing or invalid XSRF token"), nil), nil
	}
	code, out, rej := n.handle(req.Method, req.URL.Path, req.URL.Query().Get("cursor"), req.URL.Query().Get("action"), body)
	rec.Reject = rej
	if rej != "" {
		n.Log.Add("dev", "REJECT %s", rej)
	}
	return resp(req, code, out, nil), nil
}

func parseForm(body string) map[string]string {
	m := map[string]string{}
	for _, kv := range strings.Split(body, "&") {
		k, v, _ := strings.Cut(kv, "=")
		k2, _ := queryUnescape(k)
		v2, _ := queryUnescape(v)
		m[k2] = v2
	}
	return m
}

func (n *Node) fault(k int) *Fault {
	for i := range n.Faults {
		if n.Faults[i].At == k {
			return &n.Faults[i]
		}
	}
	return nil
}

func page(all []Obj, cursor string, size int, project func(Obj) Obj) string {
	start := 0
	if cursor != "" {
		fmt.Sscanf(cursor, "%d", &start)
	}
	end := len(all)
	next := ""
	if size > 0 && start+size < len(all) {
		end = start + size
		next = fmt.Sprint(end)
	}
	if start > len(all) {
		start = len(all)
	}
	var res []Obj
	for _, o := range all[start:end] {
		res = append(res, project(o))
	}
	out := map[string]any{"results": res, "result_count": len(all)}
	if res == nil {
		out["results"] = []Obj{}
	}
	if next != "" {
		out["cursor"] = next
	}
	b, _ := json.Marshal(out)
	return string(b)
}

// deviceView adds what only the manager knows (path, revision, display name).
func deviceView(kind, path string, o Obj) Obj {
	v := clone(o)
	v["display_name"] = id(o)
	v["path"] = path
	v["_revision"] = 3
	v["resource_type"] = kind
	return v
}

func (n *Node) policyJSON(p *Policy) Obj {
	v := clone(p.Attrs)
	v["id"] = p.ID
	v["resource_type"] = "GatewayPolicy"
	v["path"] = "/infra/domains/default/gateway-policies/" + p.ID
	var rules []Obj
	for _, r := range p.Rules {
		rv := clone(r)
		rv["resource_type"] = "Rule"
		rv["path"] = "/infra/domains/default/gateway-policies/" + p.ID + "/rules/" + id(r)
		rv["_revision"] = 1
		rules = append(rules, rv)
	}
	if rules == nil {
		rules = []Obj{}
	}
	v["rules"] = rules
	return v
}

func (n *Node) handle(method, path, cursor, action, body string) (int, string, string) {
	const base = "/policy/api/v1/infra"
	rest, ok := strings.CutPrefix(path, base)
	if !ok {
		return 404, errBody(404, "not found"), ""
	}
	var in Obj
	if body != "" {
		if err := json.Unmarshal([]byte(body), &in); err != nil {
			return 400, errBody(400, "request body is not valid JSON"), "invalid JSON body"
		}
	}
	parts := strings.Split(strings.Trim(rest, "/"), "/")
	if method == "GET" {
		switch {
		case rest == "/domains/default/gateway-policies":
			var all []Obj
			for _, p := range n.Policies {
				all = append(all, Obj{"id": p.ID, "resource_type": "GatewayPolicy", "display_name": p.ID})
			}
			// Far fewer policies than the manager's page size of 1000: one page.
			return 200, page(all, cursor, 0, func(o Obj) Obj { return o }), ""
		case len(parts) == 4 && parts[2] == "gateway-policies":
			p := n.policy(parts[3])
			if p == nil {
				return 404, errBody(404, "policy not found"), ""
			}
			b, _ := json.Marshal(n.policyJSON(p))
			return 200, string(b), ""
		case rest == "/services":
			return 200, page(n.Services, cursor, n.PageSize, func(o Obj) Obj { return deviceView("Service", "/infra/services/"+id(o), o) }), ""
		case rest == "/domains/default/groups":
			return 200, page(n.Groups, cursor, n.PageSize, func(o Obj) Obj { return deviceView("Group", grpPrefix+id(o), o) }), ""
		}
		return 404, errBody(404, "not found"), ""
	}
	before := n.Clone()
	dangBefore := n.dangling()
	rej := n.mutate(method, parts, action, in)
	if rej == "" && n.Strict {
		for d := range n.dangling() {
			if !dangBefore[d] {
				rej = d
				break
			}
		}
	}
	if rej != "" {
		n.Policies, n.Groups, n.Services = before.Policies, before.Groups, before.Services
		code := 400
		if strings.Contains(rej, "does not exist") || strings.Contains(rej, "not found") {
			code = 404
		}
		return code, errBody(code, rej), rej
	}
	return 200, "", ""
}

func stripID(o Obj, name string) Obj {
	c := clone(o)
	if c == nil {
		c = Obj{}
	}
	c["id"] = name
	delete(c, "_revision")
	return c
}

func (n *Node) mutate(method string, parts []string, action string, in Obj) string {
	switch {
	case len(parts) == 2 && parts[0] == "services":
		name := parts[1]
		cur := n.service(name)
		switch method {
		case "PUT", "PATCH":
			if in == nil {
				return "missing body"
			}
			if cur == nil {
				n.Services = append(n.Services, stripID(in, name))
				return ""
			}
			if method == "PUT" {
				for k := range cur {
					delete(cur, k)
				}
			}
			for k, v := range stripID(in, name) {
				cur[k] = v
			}
			return ""
		case "DELETE":
			if cur == nil {
				return "service " + name + " does not exist"
			}
			for i, s := range n.Services {
				if id(s) == name {
					n.Services = append(n.Services[:i], n.Services[i+1:]...)
				}
			}
			return ""
		}
	case len(parts) == 4 && parts[2] == "groups":
		name := parts[3]
		cur := n.group(name)
		switch method {
		case "PUT", "PATCH":
			if in == nil {
				return "missing body"
			}
			g := stripID(in, name)
			if ex, ok := g["expression"].([]any); ok {
				for _, e := range ex {
					if em, ok := e.(map[string]any); ok && em["id"] == nil {
						em["id"] = "expr-" + name
					}
				}
			}
			if cur == nil {
				n.Groups = append(n.Groups, g)
				return ""
			}
			for k := range cur {
				delete(cur, k)
			}
			for k, v := range g {
				cur[k] = v
			}
			return ""
		case "DELETE":
			if cur == nil {
				return "group " + name + " does not exist"
			}
			for i, g := range n.Groups {
				if id(g) == name {
					n.Groups = append(n.Groups[:i], n.Groups[i+1:]...)
				}
			}
			return ""
		}
	case len(parts) == 6 && parts[2] == "groups" && parts[4] == "ip-address-expressions":
		g := n.group(parts[3])
		if g == nil {
			return "group " + parts[3] + " does not exist"
		}
		ex, _ := g["expression"].([]any)
		var expr map[string]any
		for _, e := range ex {
			if em, ok := e.(map[string]any); ok && em["id"] == parts[5] {
				expr = em
			}
		}
		if expr == nil && method == "PATCH" {
			// PATCH is create-or-update in the policy API: a further
			// expression comes into being.
			expr = map[string]any{"id": parts[5]}
			g["expression"] = append(ex, expr)
		}
		if expr == nil {
			return "expression " + parts[5] + " of group " + parts[3] + " does not exist"
		}
		switch {
		case method == "POST" && (action == "add" || action == "remove"):
			have := strs(expr["ip_addresses"])
			arg := strs(in["ip_addresses"])
			if action == "add" {
				for _, a := range arg {
					dup := false
					for _, h := range have {
						if h == a {
							dup = true
						}
					}
					if !dup {
						have = append(have, a)
					}
				}
			} else {
				for _, a := range arg {
					found := false
					for i, h := range have {
						if h == a {
							have = append(have[:i], have[i+1:]...)
							found = true
							break
						}
					}
					if !found {
						return "ip address " + a + " is not a member of group " + parts[3]
					}
				}
				// (Whether the manager refuses to empty an expression could not
				// be established without a real NSX: tolerated, the final-state
				// oracle judges the result.)
			}
			l := make([]any, len(have))
			for i, h := range have {
				l[i] = h
			}
			expr["ip_addresses"] = l
			return ""
		case method == "PATCH":
			for k, v := range in {
				expr[k] = v
			}
			expr["id"] = parts[5]
			return ""
		}
	case len(parts) == 4 && parts[2] == "gateway-policies":
		name := parts[3]
		cur := n.policy(name)
		switch method {
		case "PUT", "PATCH":
			if in == nil {
				return "missing body"
			}
			p := &Policy{ID: name, Attrs: Obj{}}
			for k, v := range in {
				switch k {
				case "rules":
					if rl, ok := v.([]any); ok {
						for _, r := range rl {
							if rm, ok := r.(map[string]any); ok {
								if id(rm) == "" {
									return "rule without id in policy " + name
								}
								p.Rules = append(p.Rules, clone(rm))
							}
						}
					}
				case "id":
				default:
					p.Attrs[k] = v
				}
			}
			if cur != nil {
				*cur = *p
			} else {
				n.Policies = append(n.Policies, p)
			}
			return ""
		case "DELETE":
			if cur == nil {
				return "policy " + name + " does not exist"
			}
			for i, p := range n.Policies {
				if p.ID == name {
					n.Policies = append(n.Policies[:i], n.Policies[i+1:]...)
				}
			}
			return ""
		}
	case len(parts) == 6 && parts[2] == "gateway-policies" && parts[4] == "rules":
		p := n.policy(parts[3])
		if p == nil {
			return "policy " + parts[3] + " does not exist"
		}
		rid := parts[5]
		idx := -1
		for i, r := range p.Rules {
			if id(r) == rid {
				idx = i
			}
		}
		switch method {
		case "PUT":
			if in == nil {
				return "missing body"
			}
			r := stripID(in, rid)
			if idx >= 0 {
				p.Rules[idx] = r
			} else {
				p.Rules = append(p.Rules, r)
			}
			return ""
		case "PATCH":
			if in == nil {
				return "missing body"
			}
			if idx < 0 {
				p.Rules = append(p.Rules, stripID(in, rid))
				return ""
			}
			for k, v := range stripID(in, rid) {
				p.Rules[idx][k] = v
			}
			return ""
		case "DELETE":
			if idx < 0 {
				return "rule " + rid + " of policy " + parts[3] + " does not exist"
			}
			p.Rules = append(p.Rules[:idx], p.Rules[idx+1:]...)
			return ""
		}
	}
	return "unsupported request " + method + " " + strings.Join(parts, "/")
}

// ---- canonical view -----------------------------------------------------------------

func canonJSON(v any) string {
	b, _ := json.Marshal(v) // map keys are sorted by encoding/json
	return string(b)
}

// CanonPolicy renders the rules of a policy as a sorted multiset; groups are
// replaced by their address sets, services by their definitions.
func (n *Node) CanonPolicy(name string) []string {
	p := n.policy(name)
	if p == nil {
		return []string{"<policy missing>"}
	}
	var out []string
	for _, r := range p.Rules {
		c := clone(r)
		for _, k := range []string{"id", "_revision", "path", "resource_type", "display_name", "parent_path", "relative_path", "unique_id", "marked_for_delete", "overridden", "is_default", "rule_id"} {
			delete(c, k)
		}
		// defaults
		for _, k := range []string{"sources_excluded", "destinations_excluded", "disabled", "logged"} {
			if b, ok := c[k].(bool); ok && !b {
				delete(c, k)
			}
		}
		for _, f := range []string{"source_groups", "destination_groups"} {
			var l []any
			for _, s := range strs(c[f]) {
				if g, ok := strings.CutPrefix(s, grpPrefix); ok {
					if strings.HasPrefix(g, "Netspoc") {
						gr := n.group(g)
						if gr == nil {
							l = append(l, "<missing group>")
							continue
						}
						var addrs []string
						if ex, ok := gr["expression"].([]any); ok {
							for _, e := range ex {
								if em, ok := e.(map[string]any); ok {
									addrs = append(addrs, strs(em["ip_addresses"])...)
								}
							}
						}
						sort.Strings(addrs)
						l = append(l, "{"+strings.Join(addrs, ",")+"}")
						continue
					}
				}
				l = append(l, s)
			}
			c[f] = l
		}
		var sl []any
		for _, s := range strs(c["services"]) {
			if sv, ok := strings.CutPrefix(s, svcPrefix); ok && strings.HasPrefix(sv, "Netspoc") {
				so := n.service(sv)
				if so == nil {
					sl = append(sl, "<missing service>")
					continue
				}
				var entries []string
				if el, ok := so["service_entries"].([]any); ok {
					for _, e := range el {
						if em, ok := e.(map[string]any); ok {
							ec := clone(em)
							for _, k := range []string{"id", "_revision", "path", "display_name", "parent_path", "relative_path", "unique_id", "marked_for_delete", "overridden"} {
								delete(ec, k)
							}
							entries = append(entries, canonJSON(ec))
						}
					}
				}
				sort.Strings(entries)
				sl = append(sl, "["+strings.Join(entries, ",")+"]")
				continue
			}
			sl = append(sl, s)
		}
		c["services"] = sl
		out = append(out, canonJSON(c))
	}
	sort.Strings(out)
	return out
}

// Foreign renders everything whose id lacks the Netspoc prefix (C07).
func (n *Node) Foreign() string {
	var l []string
	for _, p := range n.Policies {
		if !strings.HasPrefix(p.ID, "Netspoc") {
			l = append(l, "policy "+canonJSON(n.policyJSON(p)))
		}
	}
	for _, g := range n.Groups {
		if !strings.HasPrefix(id(g), "Netspoc") {
			l = append(l, "group "+canonJSON(g))
		}
	}
	for _, s := range n.Services {
		if !strings.HasPrefix(id(s), "Netspoc") {
			l = append(l, "service "+canonJSON(s))
		}
	}
	sort.Strings(l)
	return strings.Join(l, "\n")
}

// Fingerprint of the whole manager state.
func (n *Node) Fingerprint() string {
	var l []string
	for _, p := range n.Policies {
		l = append(l, "policy "+canonJSON(n.policyJSON(p)))
	}
	for _, g := range n.Groups {
		l = append(l, "group "+canonJSON(g))
	}
	for _, s := range n.Services {
		l = append(l, "service "+canonJSON(s))
	}
	return strings.Join(l, "\n")
}

// NetspocObjects lists ids of Netspoc-prefixed groups / services.
func (n *Node) NetspocObjects() (groups, services []string) {
	for _, g := range n.Groups {
		if strings.HasPrefix(id(g), "Netspoc") {
			groups = append(groups, id(g))
		}
	}
	for _, s := range n.Services {
		if strings.HasPrefix(id(s), "Netspoc") {
			services = append(services, id(s))
		}
	}
	return
}

// UsedGroups lists the Netspoc groups referenced by rules of Netspoc policies.
func (n *Node) UsedGroups() map[string]bool {
	m := map[string]bool{}
	for _, p := range n.Policies {
		for _, r := range p.Rules {
			for _, f := range []string{"source_groups", "destination_groups"} {
				for _, s := range strs(r[f]) {
					if g, ok := strings.CutPrefix(s, grpPrefix); ok {
						m[g] = true
					}
				}
			}
		}
	}
	return m
}

func queryUnescape(s string) (string, error) { return url.QueryUnescape(s) }
