// Package tape is the single source of choices of the simulator.
//
// A Tape is a recorded sequence of small non-negative integers.  In
// generation mode values are drawn from a PRNG seeded by VERIF_SEED and
// recorded; in replay mode they are taken from the record and an exhausted
// record yields 0.  0 always means "the ordinary thing", so shrinking a tape
// (shorter, smaller values) shrinks input, schedule and fault trace alike.
package tape

import (
	"math/rand/v2"
)

type Tape struct {
	Rec   []int
	pos   int
	fixed bool
	rng   *rand.Rand
}

func New(seed uint64, stream uint64) *Tape {
	return &Tape{rng: rand.New(rand.NewPCG(seed, stream*0x9e3779b97f4a7c15+1))}
}

func Replay(rec []int) *Tape {
	return &Tape{Rec: append([]int(nil), rec...), fixed: true}
}

// Next returns a value in [0,n).
func (t *Tape) Next(n int) int {
	if n <= 0 {
		n = 1
	}
	if t.fixed {
		if t.pos >= len(t.Rec) {
			t.pos++
			return 0
		}
		v := t.Rec[t.pos]
		t.pos++
		if v < 0 {
			v = -v
		}
		return v % n
	}
	v := t.rng.IntN(n)
	t.Rec = append(t.Rec, v)
	t.pos++
	return v
}

// Chance is true with probability num/den; false is the "ordinary" outcome.
func (t *Tape) Chance(num, den int) bool {
	return t.Next(den) >= den-num
}

func (t *Tape) Range(lo, hi int) int { // inclusive
	if hi <= lo {
		return lo
	}
	return lo + t.Next(hi-lo+1)
}

func (t *Tape) Used() []int {
	n := t.pos
	if n > len(t.Rec) {
		n = len(t.Rec)
	}
	return append([]int(nil), t.Rec[:n]...)
}

func Pick[T any](t *Tape, l []T) T {
	return l[t.Next(len(l))]
}

// Shrink minimises rec while fails(rec) stays true.  budget = max number of
// evaluations.
func Shrink(rec []int, budget int, fails func([]int) bool) []int {
	cur := append([]int(nil), rec...)
	try := func(c []int) bool {
		if budget <= 0 {
			return false
		}
		budget--
		if fails(c) {
			cur = append([]int(nil), c...)
			return true
		}
		return false
	}
	// Strip trailing zeros: they are implied.
	trim := func(c []int) []int {
		for len(c) > 0 && c[len(c)-1] == 0 {
			c = c[:len(c)-1]
		}
		return c
	}
	cur = trim(cur)
	for changed := true; changed && budget > 0; {
		changed = false
		// Truncate tail.
		for n := len(cur) / 2; n >= 1 && budget > 0; n /= 2 {
			for len(cur) >= n && try(trim(cur[:len(cur)-n])) {
				changed = true
			}
		}
		// Delete chunks.
		for size := 8; size >= 1 && budget > 0; size /= 2 {
			for i := 0; i+size <= len(cur) && budget > 0; {
				c := append(append([]int(nil), cur[:i]...), cur[i+size:]...)
				if try(trim(c)) {
					changed = true
				} else {
					i++
				}
			}
		}
		// Zero / halve values.
		for i := 0; i < len(cur) && budget > 0; i++ {
			if cur[i] == 0 {
				continue
			}
			c := append([]int(nil), cur...)
			c[i] = 0
			if try(trim(c)) {
				changed = true
				continue
			}
			c = append([]int(nil), cur...)
			c[i] = cur[i] / 2
			if c[i] != cur[i] && try(c) {
				changed = true
			}
		}
	}
	return cur
}
