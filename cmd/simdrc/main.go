//go:build verif

// simdrc is cmd/drc plus the in-process simulator hooks (process mode).
package main

import (
	"os"

	"github.com/hknutzen/Netspoc-Approve/go/pkg/drc"
	_ "verif/sim/procsim"
)

func main() {
	os.Exit(drc.Main())
}
