//go:build verif

// simdo-approve is cmd/do-approve plus the in-process simulator hooks.
package main

import (
	"os"

	"github.com/hknutzen/Netspoc-Approve/go/pkg/doapprove"
	_ "verif/sim/procsim"
)

func main() {
	os.Exit(doapprove.Main())
}
